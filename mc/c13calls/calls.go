// Package c13calls is the call alphabet shared by the C13 harnesses (history explorer,
// interleaving explorer, free-running race pass): calls chosen to collide — same expression text
// through different entry points, same shared slice objects, case variants of one reference name,
// every lazily initialisable table (lists, ranges, regexps) touched.
package c13calls

import (
	"fmt"

	"github.com/github/go-spdx/v2/spdxexp"
)

// ---------------------------------------------------------------- call alphabet

type Call struct {
	Fn   string `json:"fn"`
	Expr string `json:"expr,omitempty"`
	List string `json:"list,omitempty"` // name of a shared slice
}

var SharedLists = map[string][]string{
	"L1":  {"mit", "GPL-2.0+", "LicenseRef-a", "Apache-2.0", "ISC", "GPL-2.0+"},
	"L2":  {"MIT", "FOO", "Apache-2.0-or-later", "(MIT AND ISC)", "", "MIT"},
	"L3":  {"GPL-2.0-or-later"},
	"L4":  {"Zlib", "MIT"},
	"L5":  {"zlib", "ISC", "isc", "MIT", "Apache-2.0", "0BSD", "mit"},
	"L6":  {"MIT AND ISC", "LicenseRef-q", "MIT WITH Bison-exception-2.2"},
	"L8":  {"LGPL-2.0+", "JSON", "LicenseRef-a", "LGPL-3.0-only"},
	"L10": {"MPL-2.0+"},
	"L11": {"MPL-2.0+", "Zlib"},
	"L12": {"MPL-1.0+", "Zlib"},
	"L13": {"MPL-2.0-no-copyleft-exception"},
	"L14": {"MPL-1.1+"},
	"L7":  {"mit and isc", "licenseref-q", "MIT and ISC", "mit with bison-exception-2.2", "LicenseRef-Q"},
}

func init() {
	// L9: 150 entries, every third one invalid in a different way; L9v: 150 valid single entries with repeats
	bad := []string{"FOO", "MIT AND", "(", "", "mit and isc", "LicenseRef-", "GPL-2.0 +"}
	good := []string{"MIT", "Zed", "ISC", "GPL-2.0+", "LicenseRef-a", "Apache-2.0-or-later", "mit", "0BSD", "Vim", "X11"}
	var l9, l9v []string
	for i := 0; i < 150; i++ {
		if i%3 == 2 {
			l9 = append(l9, bad[(i/3)%len(bad)])
		} else {
			l9 = append(l9, good[i%len(good)])
		}
		l9v = append(l9v, good[(i*7)%len(good)])
	}
	SharedLists["L9"] = l9
	SharedLists["L9v"] = l9v
}

// Alphabet is the fixed call alphabet Σ of the history explorer.
var Alphabet = []Call{
	{Fn: "Satisfies", Expr: "MIT", List: "L4"},
	{Fn: "Satisfies", Expr: "MIT OR Apache-2.0-or-later", List: "L1"},
	{Fn: "Satisfies", Expr: "GPL-2.0+ AND LicenseRef-a", List: "L1"},
	{Fn: "Satisfies", Expr: "GPL-3.0-only", List: "L3"},
	{Fn: "Satisfies", Expr: "FOO AND", List: "L1"},
	{Fn: "Satisfies", Expr: "mit", List: "L2"},
	{Fn: "Satisfies", Expr: "(MIT AND ISC) OR (GPL-2.0-only WITH Bison-exception-2.2)", List: "L1"},
	{Fn: "Satisfies", Expr: "DocumentRef-d:LicenseRef-a OR LicenseRef-a", List: "L1"},
	{Fn: "Satisfies", Expr: "Apache-2.0-or-later AND FOO", List: "L4"},
	{Fn: "ValidateLicenses", List: "L2"},
	{Fn: "ValidateLicenses", List: "L1"},
	{Fn: "ValidateLicenses", List: "L4"},
	{Fn: "ExtractLicenses", Expr: "mit AND (Apache-2.0-or-later OR GPL-2.0+ WITH Bison-exception-2.2)"},
	{Fn: "ExtractLicenses", Expr: "MIT OR Apache-2.0-or-later"},
	{Fn: "ExtractLicenses", Expr: "Zlib AND MIT AND ISC AND Apache-2.0 AND 0BSD AND LicenseRef-z AND BSD-3-Clause"},
	{Fn: "ExtractLicenses", Expr: "MIT OR INVALID"},
	{Fn: "ExtractLicenses", Expr: "(MIT AND MIT) OR mit"},
	{Fn: "ExtractLicenses", Expr: "GPL-2.0-or-later WITH Bison-exception-2.2 OR LicenseRef-a"},
	{Fn: "Satisfies", Expr: "MIT AND ISC AND Apache-2.0", List: "L1"},
	{Fn: "Satisfies", Expr: "EUPL-1.2", List: "L3"},
	{Fn: "Satisfies", Expr: "GPL-2.0", List: "L3"},
	{Fn: "ExtractLicenses", Expr: "MIT"},
	{Fn: "ValidateLicenses", List: "L3"},
	{Fn: "Satisfies", Expr: "(", List: "L4"},
	{Fn: "Satisfies", Expr: "LicenseRef-A", List: "L1"},
	{Fn: "Satisfies", Expr: "LicenseRef-a", List: "L1"},
	{Fn: "ExtractLicenses", Expr: "LicenseRef-A OR mit"},
	{Fn: "ExtractLicenses", Expr: "licenseref-a or MIT"},
	{Fn: "Satisfies", Expr: "MIT AND ISC", List: "L5"},
	{Fn: "ValidateLicenses", List: "L5"},
	// the same text up to letter case where case matters (operators, reference prefixes)
	{Fn: "ValidateLicenses", List: "L6"},
	{Fn: "ValidateLicenses", List: "L7"},
	{Fn: "ExtractLicenses", Expr: "MIT AND ISC"},
	{Fn: "ExtractLicenses", Expr: "mit and isc"},
	{Fn: "Satisfies", Expr: "mit AND isc", List: "L4"},
	{Fn: "Satisfies", Expr: "MIT and ISC", List: "L4"},
	// long expressions (> 16 tokens): buffers that are only pooled / cached above a size threshold
	{Fn: "ExtractLicenses", Expr: "MIT AND ISC AND Zlib AND 0BSD AND Apache-2.0 AND BSD-3-Clause AND MPL-2.0 AND Unlicense AND X11 AND NTP AND W3C"},
	{Fn: "Satisfies", Expr: "(Vim OR TCL OR Zed OR curl OR Ruby OR PHP-3.01 OR OFL-1.1 OR NCSA OR Libpng OR JSON) AND LicenseRef-a AND LGPL-2.1+", List: "L8"},
	// ids that the range table lists twice (lookup order matters for them)
	{Fn: "Satisfies", Expr: "MPL-2.0-no-copyleft-exception OR MPL-1.1+", List: "L10"},
	{Fn: "Satisfies", Expr: "MPL-1.1+", List: "L11"},
	{Fn: "Satisfies", Expr: "MPL-2.0-no-copyleft-exception", List: "L12"},
	// a long list (work that is only split up / batched above a size threshold)
	{Fn: "ValidateLicenses", List: "L9"},
	{Fn: "Satisfies", Expr: "MIT AND Zed", List: "L9v"},
	// one-sided '+' inside each of the two families that list MPL-1.0 / MPL-1.1 (a range comparison that
	// succeeds in the second family, then a question whose answer depends on which family those ids resolve to)
	{Fn: "Satisfies", Expr: "MPL-2.0-no-copyleft-exception+", List: "L13"},
	{Fn: "Satisfies", Expr: "MPL-2.0", List: "L14"},
}

// instance lists: the slices actually passed (shared between calls that name the same list)
type Env struct {
	Lists map[string][]string
}

func NewEnv() *Env {
	e := &Env{Lists: map[string][]string{}}
	for k, v := range SharedLists {
		c := make([]string, len(v), len(v)+2)
		copy(c, v)
		full := c[:cap(c)]
		for i := len(v); i < len(full); i++ {
			full[i] = "\x00sentinel"
		}
		e.Lists[k] = c
	}
	return e
}

func (e *Env) Mutated() string {
	for k, v := range SharedLists {
		c := e.Lists[k]
		full := c[:cap(c)]
		if len(c) != len(v) {
			return fmt.Sprintf("shared list %s changed length", k)
		}
		for i := range full {
			want := "\x00sentinel"
			if i < len(v) {
				want = v[i]
			}
			if full[i] != want {
				return fmt.Sprintf("shared list %s was modified by a call: %q (was %q)", k, full, v)
			}
		}
	}
	return ""
}

func (e *Env) Do(c Call) (res string) {
	defer func() {
		if r := recover(); r != nil {
			res = fmt.Sprintf("PANIC: %v", r)
		}
	}()
	switch c.Fn {
	case "Satisfies":
		ok, err := spdxexp.Satisfies(c.Expr, e.Lists[c.List])
		return fmt.Sprintf("%v|%v", ok, errStr(err))
	case "ValidateLicenses":
		ok, inv := spdxexp.ValidateLicenses(e.Lists[c.List])
		return fmt.Sprintf("%v|%q", ok, inv)
	case "ExtractLicenses":
		l, err := spdxexp.ExtractLicenses(c.Expr)
		return fmt.Sprintf("%q|nil=%v|%v", l, l == nil, errStr(err))
	}
	return "?"
}

func errStr(err error) string {
	if err == nil {
		return "<nil>"
	}
	return err.Error()
}
