package vsched

import (
	"fmt"
	"hash/fnv"
	"reflect"
	"sort"
	"strings"
)

// Dumper produces a canonical deep dump of values (pointer-following, cycle-safe, sorted map keys).
type Dumper struct {
	b    strings.Builder
	seen map[uintptr]int
}

func (d *Dumper) Var(name string, p any) {
	if d.seen == nil {
		d.seen = map[uintptr]int{}
	}
	d.b.WriteString(name)
	d.b.WriteString(" = ")
	d.val(reflect.ValueOf(p).Elem(), 0)
	d.b.WriteString("\n")
}

func (d *Dumper) String() string {
	s := d.b.String()
	if len(s) > 1<<20 {
		h := fnv.New64a()
		h.Write([]byte(s))
		return fmt.Sprintf("%s...[%d bytes, fnv %x]", s[:4096], len(s), h.Sum64())
	}
	return s
}

func (d *Dumper) val(v reflect.Value, depth int) {
	if depth > 24 {
		d.b.WriteString("<deep>")
		return
	}
	switch v.Kind() {
	case reflect.Invalid:
		d.b.WriteString("<invalid>")
	case reflect.Bool:
		fmt.Fprint(&d.b, v.Bool())
	case reflect.Int, reflect.Int8, reflect.Int16, reflect.Int32, reflect.Int64:
		fmt.Fprint(&d.b, v.Int())
	case reflect.Uint, reflect.Uint8, reflect.Uint16, reflect.Uint32, reflect.Uint64, reflect.Uintptr:
		fmt.Fprint(&d.b, v.Uint())
	case reflect.Float32, reflect.Float64:
		fmt.Fprint(&d.b, v.Float())
	case reflect.Complex64, reflect.Complex128:
		fmt.Fprint(&d.b, v.Complex())
	case reflect.String:
		fmt.Fprintf(&d.b, "%q", v.String())
	case reflect.Pointer:
		if v.IsNil() {
			d.b.WriteString("nil")
			return
		}
		addr := v.Pointer()
		if n, ok := d.seen[addr]; ok {
			fmt.Fprintf(&d.b, "&ref%d", n)
			return
		}
		d.seen[addr] = len(d.seen) + 1
		fmt.Fprintf(&d.b, "&%d:", d.seen[addr])
		d.val(v.Elem(), depth+1)
	case reflect.Interface:
		if v.IsNil() {
			d.b.WriteString("nil")
			return
		}
		fmt.Fprintf(&d.b, "(%s)", v.Elem().Type())
		d.val(v.Elem(), depth+1)
	case reflect.Slice:
		if v.IsNil() {
			d.b.WriteString("nil")
			return
		}
		fallthrough
	case reflect.Array:
		fmt.Fprintf(&d.b, "[%d:", v.Len())
		for i := 0; i < v.Len(); i++ {
			if i > 0 {
				d.b.WriteString(",")
			}
			d.val(v.Index(i), depth+1)
		}
		d.b.WriteString("]")
	case reflect.Map:
		if v.IsNil() {
			d.b.WriteString("nil")
			return
		}
		type kv struct{ k, v string }
		var ents []kv
		it := v.MapRange()
		for it.Next() {
			var kd, vd Dumper
			kd.seen, vd.seen = d.seen, d.seen
			kd.val(it.Key(), depth+1)
			vd.val(it.Value(), depth+1)
			ents = append(ents, kv{kd.b.String(), vd.b.String()})
		}
		sort.Slice(ents, func(i, j int) bool { return ents[i].k < ents[j].k })
		fmt.Fprintf(&d.b, "map[%d:", len(ents))
		for i, e := range ents {
			if i > 0 {
				d.b.WriteString(",")
			}
			d.b.WriteString(e.k + ":" + e.v)
		}
		d.b.WriteString("]")
	case reflect.Struct:
		t := v.Type()
		// transient internals of real synchronisation primitives and of the shims' clocks are not state
		if p := t.PkgPath(); (p == "sync" && (t.Name() == "Mutex" || t.Name() == "RWMutex" || t.Name() == "Pool" || t.Name() == "noCopy")) || t.Name() == "SyncObj" {
			d.b.WriteString("{" + t.Name() + "}")
			return
		}
		d.b.WriteString("{")
		for i := 0; i < v.NumField(); i++ {
			if i > 0 {
				d.b.WriteString(",")
			}
			d.b.WriteString(t.Field(i).Name + ":")
			d.val(v.Field(i), depth+1)
		}
		d.b.WriteString("}")
	case reflect.Func:
		if v.IsNil() {
			d.b.WriteString("nil")
		} else {
			d.b.WriteString("func")
		}
	case reflect.Chan:
		if v.IsNil() {
			d.b.WriteString("nil")
		} else {
			fmt.Fprintf(&d.b, "chan(len %d)", v.Len())
		}
	case reflect.UnsafePointer:
		if v.Pointer() == 0 {
			d.b.WriteString("nil")
		} else {
			d.b.WriteString("unsafeptr")
		}
	default:
		d.b.WriteString("<" + v.Kind().String() + ">")
	}
}
