// Package vsched is the cooperative scheduler that the C13 interleaving explorer (E3) links into
// an instrumented copy of the library: one goroutine runs at a time; every instrumented access
// to shared state and every synchronisation operation is a scheduling point; the explorer
// decides which thread continues. It also records accesses with vector clocks so that data
// races (conflicting accesses not ordered by happens-before) are found on every schedule.
//
// When no exploration is active (Active == nil) every hook is a no-op, so the same instrumented
// code also runs free.
package vsched

import (
	"fmt"
	"sort"
)

type AccessKind uint8

const (
	Read AccessKind = iota
	Write
)

type thread struct {
	id      int
	wake    chan struct{}
	done    bool
	blocked any // sync object waited for; nil = enabled
	vc      []int
	result  any
	held    int // number of locks currently held (accesses made under a lock are not preemption points)
}

// PointRec is one recorded choice point of an execution.
type PointRec struct {
	Kind           string // "sched" | "maporder"
	N              int    // number of alternatives
	Chosen         int
	RunningEnabled bool // (sched) the previously running thread was still enabled
	Enabled        []int
}

type Race struct {
	Var    string
	A, B   string
	Detail string
}

type varState struct {
	lastWrite   []int // vector clock of the last write (nil = none)
	lastWriteBy int
	lastWriteAt string
	reads       map[int][]int // thread -> VC of its last read since the last write
	readAt      map[int]string
}

type Exec struct {
	threads    []*thread
	cur        *thread
	yield      chan struct{}
	prefix     []int
	Points     []PointRec
	Races      []Race
	Deadlock   bool
	Diverged   string
	vars       map[any]*varState
	names      map[any]string
	AccessN    int
	SyncN      int
	MapOrderN  int
	Unmodelled []string
	steps      int
	StepLimit  int
	LimitHit   bool
}

// Active is the execution being explored (nil = free running).
var Active *Exec

// Run executes bodies as threads under the scheduler, replaying prefix and taking choice 0
// afterwards. It returns when every thread has finished (or on deadlock / step limit).
func Run(prefix []int, bodies []func() any) *Exec {
	e := &Exec{yield: make(chan struct{}), prefix: prefix, vars: map[any]*varState{}, names: map[any]string{}, StepLimit: 200000}
	n := len(bodies)
	for i, b := range bodies {
		t := &thread{id: i, wake: make(chan struct{}), vc: make([]int, n)}
		t.vc[i] = 1
		e.threads = append(e.threads, t)
		body := b
		go func() {
			<-t.wake
			func() {
				defer func() {
					if r := recover(); r != nil {
						t.result = fmt.Sprintf("PANIC: %v", r)
					}
				}()
				t.result = body()
			}()
			t.done = true
			e.yield <- struct{}{}
		}()
	}
	Active = e
	defer func() { Active = nil }()
	for {
		var enabled []int
		alldone := true
		for _, t := range e.threads {
			if !t.done {
				alldone = false
				if t.blocked == nil {
					enabled = append(enabled, t.id)
				}
			}
		}
		if alldone {
			return e
		}
		if len(enabled) == 0 {
			e.Deadlock = true
			return e
		}
		if e.steps++; e.steps > e.StepLimit {
			e.LimitHit = true
			return e
		}
		// canonical order: running thread first if still enabled, then ascending ids
		runningEnabled := false
		if e.cur != nil && !e.cur.done && e.cur.blocked == nil {
			runningEnabled = true
			ord := []int{e.cur.id}
			for _, id := range enabled {
				if id != e.cur.id {
					ord = append(ord, id)
				}
			}
			enabled = ord
		}
		ch := 0
		if len(enabled) > 1 {
			ch = e.choose("sched", len(enabled), runningEnabled, enabled)
		}
		next := e.threads[enabled[ch]]
		e.cur = next
		next.wake <- struct{}{}
		<-e.yield
	}
}

func (e *Exec) choose(kind string, n int, runningEnabled bool, enabled []int) int {
	i := len(e.Points)
	ch := 0
	if i < len(e.prefix) {
		ch = e.prefix[i]
		if ch < 0 || ch >= n {
			e.Diverged = fmt.Sprintf("choice %d at point %d out of range (%d alternatives, kind %s)", ch, i, n, kind)
			ch = 0
		}
	}
	e.Points = append(e.Points, PointRec{Kind: kind, N: n, Chosen: ch, RunningEnabled: runningEnabled, Enabled: append([]int{}, enabled...)})
	return ch
}

// Results returns each thread's result.
func (e *Exec) Results() []any {
	out := make([]any, len(e.threads))
	for i, t := range e.threads {
		out[i] = t.result
	}
	return out
}

// point yields to the scheduler (called by the running thread).
func (e *Exec) point() {
	t := e.cur
	e.yield <- struct{}{}
	<-t.wake
}

// Point is an explicit scheduling point.
func Point() {
	if e := Active; e != nil && e.cur != nil {
		e.point()
	}
}

// Access is inserted before every statement that reads or writes shared state.
// key identifies the variable (a string for package-level variables, a pointer for receivers).
func Access(key any, name string, kind AccessKind, where string) {
	e := Active
	if e == nil || e.cur == nil {
		return
	}
	e.AccessN++
	// An access made while holding a lock is not a preemption point: threads that follow the lock
	// discipline cannot touch the variable now, and one that does not is reported as a race by the
	// vector clocks on whatever schedule it runs. (Scheduling at synchronisation operations is
	// sufficient once unsynchronised accesses are caught separately.)
	if e.cur.held == 0 {
		e.point()
	}
	e.record(key, name, kind, where)
}

// AccessRO records a read of a variable that is never written after initialisation: it cannot
// conflict, so it is not a scheduling point.
func AccessRO(key any, name string, where string) {
	if e := Active; e != nil {
		e.AccessN++
	}
}

func happensBefore(a, b []int) bool { // a <= b componentwise
	for i := range a {
		if a[i] > b[i] {
			return false
		}
	}
	return true
}

func (e *Exec) record(key any, name string, kind AccessKind, where string) {
	t := e.cur
	vs := e.vars[key]
	if vs == nil {
		vs = &varState{reads: map[int][]int{}, readAt: map[int]string{}}
		e.vars[key] = vs
		e.names[key] = name
	}
	if vs.lastWrite != nil && vs.lastWriteBy != t.id && !happensBefore(vs.lastWrite, t.vc) {
		e.addRace(name, fmt.Sprintf("write by thread %d at %s", vs.lastWriteBy, vs.lastWriteAt), fmt.Sprintf("%s by thread %d at %s", kindName(kind), t.id, where))
	}
	if kind == Write {
		for id, rvc := range vs.reads {
			if id != t.id && !happensBefore(rvc, t.vc) {
				e.addRace(name, fmt.Sprintf("read by thread %d at %s", id, vs.readAt[id]), fmt.Sprintf("write by thread %d at %s", t.id, where))
			}
		}
		vs.lastWrite = append([]int{}, t.vc...)
		vs.lastWriteBy = t.id
		vs.lastWriteAt = where
		vs.reads = map[int][]int{}
		vs.readAt = map[int]string{}
	} else {
		vs.reads[t.id] = append([]int{}, t.vc...)
		vs.readAt[t.id] = where
	}
	t.vc[t.id]++
}

func kindName(k AccessKind) string {
	if k == Write {
		return "write"
	}
	return "read"
}

func (e *Exec) addRace(name, a, b string) {
	for _, r := range e.Races {
		if r.Var == name && r.A == a && r.B == b {
			return
		}
	}
	if len(e.Races) < 20 {
		e.Races = append(e.Races, Race{Var: name, A: a, B: b})
	}
}

// ---- synchronisation support used by the vsync / vatomic shims

// SyncObj carries the vector clock released by the last release operation on the object.
type SyncObj struct {
	vc []int
}

// Acquire joins the object's clock into the current thread (after a scheduling point taken by the caller).
func Acquire(o *SyncObj) {
	e := Active
	if e == nil || e.cur == nil || o.vc == nil {
		return
	}
	t := e.cur
	for i := range t.vc {
		if i < len(o.vc) && o.vc[i] > t.vc[i] {
			t.vc[i] = o.vc[i]
		}
	}
}

// Release publishes the current thread's clock on the object.
func Release(o *SyncObj) {
	e := Active
	if e == nil || e.cur == nil {
		return
	}
	t := e.cur
	if o.vc == nil {
		o.vc = make([]int, len(t.vc))
	}
	for i := range t.vc {
		if t.vc[i] > o.vc[i] {
			o.vc[i] = t.vc[i]
		}
	}
	t.vc[t.id]++
}

// SyncPoint is a scheduling point at a synchronisation operation.
func SyncPoint() {
	if e := Active; e != nil && e.cur != nil {
		e.SyncN++
		e.point()
	}
}

// Block parks the current thread until Unblock(obj) is called by another thread.
func Block(obj any) {
	e := Active
	if e == nil || e.cur == nil {
		return
	}
	e.cur.blocked = obj
	e.point()
}

// Unblock makes every thread parked on obj runnable again.
func Unblock(obj any) {
	e := Active
	if e == nil {
		return
	}
	for _, t := range e.threads {
		if t.blocked == obj {
			t.blocked = nil
		}
	}
}

// Held adjusts the number of locks the current thread holds.
func Held(delta int) {
	if e := Active; e != nil && e.cur != nil {
		e.cur.held += delta
	}
}

// Exploring reports whether a controlled execution is active.
func Exploring() bool { return Active != nil && Active.cur != nil }

// Unmodelled notes an operation the shims cannot model (reported, never an alarm).
func Unmodelled(what string) {
	if e := Active; e != nil {
		for _, u := range e.Unmodelled {
			if u == what {
				return
			}
		}
		e.Unmodelled = append(e.Unmodelled, what)
	}
}

// MapKeys returns the keys of m in the order the explorer chooses: choice 0 is the canonical
// (sorted) order, every other choice is a deviation. Free running: canonical order.
func MapKeys[M ~map[K]V, K comparable, V any](m M) []K {
	keys := make([]K, 0, len(m))
	for k := range m {
		keys = append(keys, k)
	}
	sort.Slice(keys, func(i, j int) bool { return fmt.Sprint(keys[i]) < fmt.Sprint(keys[j]) })
	e := Active
	if e == nil || e.cur == nil || len(keys) < 2 {
		return keys
	}
	e.MapOrderN++
	perms := orderings(len(keys))
	ch := e.choose("maporder", len(perms), false, nil)
	out := make([]K, len(keys))
	for i, p := range perms[ch] {
		out[i] = keys[p]
	}
	return out
}

// orderings: all permutations for n <= 4, otherwise identity, reversal, rotations and adjacent swaps.
func orderings(n int) [][]int {
	id := make([]int, n)
	for i := range id {
		id[i] = i
	}
	if n <= 4 {
		var out [][]int
		var rec func(cur []int, used []bool)
		rec = func(cur []int, used []bool) {
			if len(cur) == n {
				out = append(out, append([]int{}, cur...))
				return
			}
			for i := 0; i < n; i++ {
				if !used[i] {
					used[i] = true
					rec(append(cur, i), used)
					used[i] = false
				}
			}
		}
		rec(nil, make([]bool, n))
		return out
	}
	out := [][]int{id}
	rev := make([]int, n)
	for i := range rev {
		rev[i] = n - 1 - i
	}
	out = append(out, rev)
	for r := 1; r < n; r++ {
		p := make([]int, n)
		for i := range p {
			p[i] = (i + r) % n
		}
		out = append(out, p)
	}
	for s := 0; s+1 < n; s++ {
		p := append([]int{}, id...)
		p[s], p[s+1] = p[s+1], p[s]
		out = append(out, p)
	}
	Unmodelled(fmt.Sprintf("map iteration over %d keys: only %d of %d! orders explored", n, len(out), n))
	return out
}

// Zero resets *p to its zero value (used by the generated state-reset code).
func Zero[T any](p *T) {
	var z T
	*p = z
}
