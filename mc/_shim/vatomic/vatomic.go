// Package vatomic replaces "sync/atomic" in the instrumented copy of the library. Every
// operation is a scheduling point and acts as acquire+release on an object tied to the address.
package vatomic

import (
	"sync"
	"sync/atomic"
	"unsafe"

	"github.com/github/go-spdx/v2/verifsched/vsched"
)

var (
	objMu sync.Mutex
	objs  = map[unsafe.Pointer]*vsched.SyncObj{}
)

// op: RMW operations acquire and release; opL (loads) only acquire; opS (stores) only release.
func op(p unsafe.Pointer)  { sync3(p, true, true) }
func opL(p unsafe.Pointer) { sync3(p, true, false) }
func opS(p unsafe.Pointer) { sync3(p, false, true) }

func sync3(p unsafe.Pointer, acq, rel bool) {
	if !vsched.Exploring() {
		return
	}
	vsched.SyncPoint()
	objMu.Lock()
	o := objs[p]
	if o == nil {
		o = &vsched.SyncObj{}
		objs[p] = o
	}
	objMu.Unlock()
	if acq {
		vsched.Acquire(o)
	}
	if rel {
		vsched.Release(o)
	}
}

// Reset forgets all per-address objects (called between executions).
func Reset() {
	objMu.Lock()
	objs = map[unsafe.Pointer]*vsched.SyncObj{}
	objMu.Unlock()
}

func AddInt32(a *int32, d int32) int32         { op(unsafe.Pointer(a)); return atomic.AddInt32(a, d) }
func AddInt64(a *int64, d int64) int64         { op(unsafe.Pointer(a)); return atomic.AddInt64(a, d) }
func AddUint32(a *uint32, d uint32) uint32     { op(unsafe.Pointer(a)); return atomic.AddUint32(a, d) }
func AddUint64(a *uint64, d uint64) uint64     { op(unsafe.Pointer(a)); return atomic.AddUint64(a, d) }
func AddUintptr(a *uintptr, d uintptr) uintptr { op(unsafe.Pointer(a)); return atomic.AddUintptr(a, d) }
func LoadInt32(a *int32) int32                 { opL(unsafe.Pointer(a)); return atomic.LoadInt32(a) }
func LoadInt64(a *int64) int64                 { opL(unsafe.Pointer(a)); return atomic.LoadInt64(a) }
func LoadUint32(a *uint32) uint32              { opL(unsafe.Pointer(a)); return atomic.LoadUint32(a) }
func LoadUint64(a *uint64) uint64              { opL(unsafe.Pointer(a)); return atomic.LoadUint64(a) }
func LoadUintptr(a *uintptr) uintptr           { opL(unsafe.Pointer(a)); return atomic.LoadUintptr(a) }
func LoadPointer(a *unsafe.Pointer) unsafe.Pointer {
	op(unsafe.Pointer(a))
	return atomic.LoadPointer(a)
}
func StoreInt32(a *int32, v int32)       { opS(unsafe.Pointer(a)); atomic.StoreInt32(a, v) }
func StoreInt64(a *int64, v int64)       { opS(unsafe.Pointer(a)); atomic.StoreInt64(a, v) }
func StoreUint32(a *uint32, v uint32)    { opS(unsafe.Pointer(a)); atomic.StoreUint32(a, v) }
func StoreUint64(a *uint64, v uint64)    { opS(unsafe.Pointer(a)); atomic.StoreUint64(a, v) }
func StoreUintptr(a *uintptr, v uintptr) { opS(unsafe.Pointer(a)); atomic.StoreUintptr(a, v) }
func StorePointer(a *unsafe.Pointer, v unsafe.Pointer) {
	op(unsafe.Pointer(a))
	atomic.StorePointer(a, v)
}
func SwapInt32(a *int32, v int32) int32     { op(unsafe.Pointer(a)); return atomic.SwapInt32(a, v) }
func SwapInt64(a *int64, v int64) int64     { op(unsafe.Pointer(a)); return atomic.SwapInt64(a, v) }
func SwapUint32(a *uint32, v uint32) uint32 { op(unsafe.Pointer(a)); return atomic.SwapUint32(a, v) }
func SwapUint64(a *uint64, v uint64) uint64 { op(unsafe.Pointer(a)); return atomic.SwapUint64(a, v) }
func SwapPointer(a *unsafe.Pointer, v unsafe.Pointer) unsafe.Pointer {
	op(unsafe.Pointer(a))
	return atomic.SwapPointer(a, v)
}
func CompareAndSwapInt32(a *int32, o, n int32) bool {
	op(unsafe.Pointer(a))
	return atomic.CompareAndSwapInt32(a, o, n)
}
func CompareAndSwapInt64(a *int64, o, n int64) bool {
	op(unsafe.Pointer(a))
	return atomic.CompareAndSwapInt64(a, o, n)
}
func CompareAndSwapUint32(a *uint32, o, n uint32) bool {
	op(unsafe.Pointer(a))
	return atomic.CompareAndSwapUint32(a, o, n)
}
func CompareAndSwapUint64(a *uint64, o, n uint64) bool {
	op(unsafe.Pointer(a))
	return atomic.CompareAndSwapUint64(a, o, n)
}
func CompareAndSwapUintptr(a *uintptr, o, n uintptr) bool {
	op(unsafe.Pointer(a))
	return atomic.CompareAndSwapUintptr(a, o, n)
}
func CompareAndSwapPointer(a *unsafe.Pointer, o, n unsafe.Pointer) bool {
	op(unsafe.Pointer(a))
	return atomic.CompareAndSwapPointer(a, o, n)
}

type Int32 struct{ v atomic.Int32 }

func (x *Int32) Load() int32        { opL(unsafe.Pointer(x)); return x.v.Load() }
func (x *Int32) Store(v int32)      { opS(unsafe.Pointer(x)); x.v.Store(v) }
func (x *Int32) Add(d int32) int32  { op(unsafe.Pointer(x)); return x.v.Add(d) }
func (x *Int32) Swap(v int32) int32 { op(unsafe.Pointer(x)); return x.v.Swap(v) }
func (x *Int32) CompareAndSwap(o, n int32) bool {
	op(unsafe.Pointer(x))
	return x.v.CompareAndSwap(o, n)
}

type Int64 struct{ v atomic.Int64 }

func (x *Int64) Load() int64        { opL(unsafe.Pointer(x)); return x.v.Load() }
func (x *Int64) Store(v int64)      { opS(unsafe.Pointer(x)); x.v.Store(v) }
func (x *Int64) Add(d int64) int64  { op(unsafe.Pointer(x)); return x.v.Add(d) }
func (x *Int64) Swap(v int64) int64 { op(unsafe.Pointer(x)); return x.v.Swap(v) }
func (x *Int64) CompareAndSwap(o, n int64) bool {
	op(unsafe.Pointer(x))
	return x.v.CompareAndSwap(o, n)
}

type Uint32 struct{ v atomic.Uint32 }

func (x *Uint32) Load() uint32         { opL(unsafe.Pointer(x)); return x.v.Load() }
func (x *Uint32) Store(v uint32)       { opS(unsafe.Pointer(x)); x.v.Store(v) }
func (x *Uint32) Add(d uint32) uint32  { op(unsafe.Pointer(x)); return x.v.Add(d) }
func (x *Uint32) Swap(v uint32) uint32 { op(unsafe.Pointer(x)); return x.v.Swap(v) }
func (x *Uint32) CompareAndSwap(o, n uint32) bool {
	op(unsafe.Pointer(x))
	return x.v.CompareAndSwap(o, n)
}

type Uint64 struct{ v atomic.Uint64 }

func (x *Uint64) Load() uint64         { opL(unsafe.Pointer(x)); return x.v.Load() }
func (x *Uint64) Store(v uint64)       { opS(unsafe.Pointer(x)); x.v.Store(v) }
func (x *Uint64) Add(d uint64) uint64  { op(unsafe.Pointer(x)); return x.v.Add(d) }
func (x *Uint64) Swap(v uint64) uint64 { op(unsafe.Pointer(x)); return x.v.Swap(v) }
func (x *Uint64) CompareAndSwap(o, n uint64) bool {
	op(unsafe.Pointer(x))
	return x.v.CompareAndSwap(o, n)
}

type Uintptr struct{ v atomic.Uintptr }

func (x *Uintptr) Load() uintptr          { opL(unsafe.Pointer(x)); return x.v.Load() }
func (x *Uintptr) Store(v uintptr)        { opS(unsafe.Pointer(x)); x.v.Store(v) }
func (x *Uintptr) Add(d uintptr) uintptr  { op(unsafe.Pointer(x)); return x.v.Add(d) }
func (x *Uintptr) Swap(v uintptr) uintptr { op(unsafe.Pointer(x)); return x.v.Swap(v) }
func (x *Uintptr) CompareAndSwap(o, n uintptr) bool {
	op(unsafe.Pointer(x))
	return x.v.CompareAndSwap(o, n)
}

type Bool struct{ v atomic.Bool }

func (x *Bool) Load() bool                    { opL(unsafe.Pointer(x)); return x.v.Load() }
func (x *Bool) Store(v bool)                  { opS(unsafe.Pointer(x)); x.v.Store(v) }
func (x *Bool) Swap(v bool) bool              { op(unsafe.Pointer(x)); return x.v.Swap(v) }
func (x *Bool) CompareAndSwap(o, n bool) bool { op(unsafe.Pointer(x)); return x.v.CompareAndSwap(o, n) }

type Pointer[T any] struct{ v atomic.Pointer[T] }

func (x *Pointer[T]) Load() *T     { opL(unsafe.Pointer(x)); return x.v.Load() }
func (x *Pointer[T]) Store(v *T)   { opS(unsafe.Pointer(x)); x.v.Store(v) }
func (x *Pointer[T]) Swap(v *T) *T { op(unsafe.Pointer(x)); return x.v.Swap(v) }
func (x *Pointer[T]) CompareAndSwap(o, n *T) bool {
	op(unsafe.Pointer(x))
	return x.v.CompareAndSwap(o, n)
}

type Value struct{ v atomic.Value }

func (x *Value) Load() any                    { opL(unsafe.Pointer(x)); return x.v.Load() }
func (x *Value) Store(v any)                  { opS(unsafe.Pointer(x)); x.v.Store(v) }
func (x *Value) Swap(v any) any               { op(unsafe.Pointer(x)); return x.v.Swap(v) }
func (x *Value) CompareAndSwap(o, n any) bool { op(unsafe.Pointer(x)); return x.v.CompareAndSwap(o, n) }
