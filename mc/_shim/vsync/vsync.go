// Package vsync replaces "sync" in the instrumented copy of the library: same API, but under
// the controlled scheduler every operation is a scheduling point, blocking is visible to the
// explorer (no enabled thread = deadlock) and happens-before edges are recorded. Free running
// (no exploration active) it delegates to the real sync package.
package vsync

import (
	"fmt"
	"sort"
	"sync"

	"github.com/github/go-spdx/v2/verifsched/vsched"
)

type Locker = sync.Locker

type Mutex struct {
	mu     sync.Mutex
	locked bool
	obj    vsched.SyncObj
}

func (m *Mutex) Lock() {
	if !vsched.Exploring() {
		m.mu.Lock()
		return
	}
	vsched.SyncPoint()
	for m.locked {
		vsched.Block(m)
	}
	m.locked = true
	vsched.Held(1)
	vsched.Acquire(&m.obj)
}

func (m *Mutex) TryLock() bool {
	if !vsched.Exploring() {
		return m.mu.TryLock()
	}
	vsched.SyncPoint()
	if m.locked {
		return false
	}
	m.locked = true
	vsched.Held(1)
	vsched.Acquire(&m.obj)
	return true
}

// Unlock is not a scheduling point of its own: being preempted just before a release is
// equivalent to being preempted at the thread's next point after it (nobody waiting for this
// mutex can run in between).
func (m *Mutex) Unlock() {
	if !vsched.Exploring() {
		m.mu.Unlock()
		return
	}
	if !m.locked {
		panic("sync: unlock of unlocked mutex")
	}
	m.locked = false
	vsched.Held(-1)
	vsched.Release(&m.obj)
	vsched.Unblock(m)
}

type RWMutex struct {
	mu      sync.RWMutex
	writer  bool
	readers int
	obj     vsched.SyncObj // released by writers (and readers, conservatively)
}

func (m *RWMutex) Lock() {
	if !vsched.Exploring() {
		m.mu.Lock()
		return
	}
	vsched.SyncPoint()
	for m.writer || m.readers > 0 {
		vsched.Block(m)
	}
	m.writer = true
	vsched.Held(1)
	vsched.Acquire(&m.obj)
}

func (m *RWMutex) TryLock() bool {
	if !vsched.Exploring() {
		return m.mu.TryLock()
	}
	vsched.SyncPoint()
	if m.writer || m.readers > 0 {
		return false
	}
	m.writer = true
	vsched.Held(1)
	vsched.Acquire(&m.obj)
	return true
}

func (m *RWMutex) Unlock() {
	if !vsched.Exploring() {
		m.mu.Unlock()
		return
	}
	if !m.writer {
		panic("sync: Unlock of unlocked RWMutex")
	}
	m.writer = false
	vsched.Held(-1)
	vsched.Release(&m.obj)
	vsched.Unblock(m)
}

func (m *RWMutex) RLock() {
	if !vsched.Exploring() {
		m.mu.RLock()
		return
	}
	vsched.SyncPoint()
	for m.writer {
		vsched.Block(m)
	}
	m.readers++
	vsched.Held(1)
	vsched.Acquire(&m.obj)
}

func (m *RWMutex) TryRLock() bool {
	if !vsched.Exploring() {
		return m.mu.TryRLock()
	}
	vsched.SyncPoint()
	if m.writer {
		return false
	}
	m.readers++
	vsched.Held(1)
	vsched.Acquire(&m.obj)
	return true
}

func (m *RWMutex) RUnlock() {
	if !vsched.Exploring() {
		m.mu.RUnlock()
		return
	}
	if m.readers <= 0 {
		panic("sync: RUnlock of unlocked RWMutex")
	}
	m.readers--
	vsched.Held(-1)
	// a reader's release is only observed by a later writer; readers do not order each other,
	// but publishing the clock on the shared object is a sound over-approximation of ordering
	// only for writer acquisition, so keep a separate join: writers acquire obj, readers release into it.
	vsched.Release(&m.obj)
	vsched.Unblock(m)
}

type rlocker RWMutex

func (r *rlocker) Lock()   { (*RWMutex)(r).RLock() }
func (r *rlocker) Unlock() { (*RWMutex)(r).RUnlock() }

func (m *RWMutex) RLocker() Locker { return (*rlocker)(m) }

type Once struct {
	once    sync.Once
	done    bool
	running bool
	obj     vsched.SyncObj
}

func (o *Once) Do(f func()) {
	if !vsched.Exploring() {
		o.once.Do(func() {
			f()
			o.done = true
		})
		return
	}
	vsched.SyncPoint()
	if o.done {
		vsched.Acquire(&o.obj)
		return
	}
	for o.running {
		vsched.Block(o)
	}
	if o.done {
		vsched.Acquire(&o.obj)
		return
	}
	o.running = true
	defer func() {
		o.running = false
		o.done = true
		vsched.Release(&o.obj)
		vsched.Unblock(o)
	}()
	f()
}

func OnceFunc(f func()) func() {
	var once Once
	return func() { once.Do(f) }
}

func OnceValue[T any](f func() T) func() T {
	var once Once
	var v T
	return func() T {
		once.Do(func() { v = f() })
		return v
	}
}

func OnceValues[T1, T2 any](f func() (T1, T2)) func() (T1, T2) {
	var once Once
	var a T1
	var b T2
	return func() (T1, T2) {
		once.Do(func() { a, b = f() })
		return a, b
	}
}

type WaitGroup struct {
	wg  sync.WaitGroup
	n   int
	obj vsched.SyncObj
}

func (w *WaitGroup) Add(d int) {
	if !vsched.Exploring() {
		w.wg.Add(d)
		return
	}
	vsched.SyncPoint()
	w.n += d
	if w.n < 0 {
		panic("sync: negative WaitGroup counter")
	}
	vsched.Release(&w.obj)
	if w.n == 0 {
		vsched.Unblock(w)
	}
}

func (w *WaitGroup) Done() { w.Add(-1) }

func (w *WaitGroup) Wait() {
	if !vsched.Exploring() {
		w.wg.Wait()
		return
	}
	vsched.SyncPoint()
	for w.n > 0 {
		vsched.Block(w)
	}
	vsched.Acquire(&w.obj)
}

type Cond struct {
	L    Locker
	cond *sync.Cond
	gen  int
}

func NewCond(l Locker) *Cond { return &Cond{L: l, cond: sync.NewCond(l)} }

func (c *Cond) Wait() {
	if !vsched.Exploring() {
		c.cond.Wait()
		return
	}
	g := c.gen
	c.L.Unlock()
	for c.gen == g {
		vsched.Block(c)
	}
	c.L.Lock()
}

func (c *Cond) Signal() { c.Broadcast() } // waking all waiters is allowed (spurious wake-ups)

func (c *Cond) Broadcast() {
	if !vsched.Exploring() {
		c.cond.Broadcast()
		return
	}
	vsched.SyncPoint()
	c.gen++
	vsched.Unblock(c)
}

// Map: every operation is atomic; modelled as acquire+release on one object.
type Map struct {
	m   sync.Map
	obj vsched.SyncObj
}

func (m *Map) op() { m.op3(true, true) }

func (m *Map) op3(acq, rel bool) {
	if vsched.Exploring() {
		vsched.SyncPoint()
		if acq {
			vsched.Acquire(&m.obj)
		}
		if rel {
			vsched.Release(&m.obj)
		}
	}
}

func (m *Map) Load(k any) (any, bool)           { m.op3(true, false); return m.m.Load(k) }
func (m *Map) Store(k, v any)                   { m.op3(false, true); m.m.Store(k, v) }
func (m *Map) LoadOrStore(k, v any) (any, bool) { m.op(); return m.m.LoadOrStore(k, v) }
func (m *Map) LoadAndDelete(k any) (any, bool)  { m.op(); return m.m.LoadAndDelete(k) }
func (m *Map) Delete(k any)                     { m.op(); m.m.Delete(k) }
func (m *Map) Swap(k, v any) (any, bool)        { m.op(); return m.m.Swap(k, v) }
func (m *Map) CompareAndSwap(k, o, n any) bool  { m.op(); return m.m.CompareAndSwap(k, o, n) }
func (m *Map) CompareAndDelete(k, o any) bool   { m.op(); return m.m.CompareAndDelete(k, o) }

// Range visits the entries in a canonical (sorted) order under exploration so that the runtime's
// unspecified order is not a hidden source of nondeterminism.
func (m *Map) Range(f func(k, v any) bool) {
	if !vsched.Exploring() {
		m.m.Range(f)
		return
	}
	m.op3(true, false)
	type kv struct{ k, v any }
	var all []kv
	m.m.Range(func(k, v any) bool { all = append(all, kv{k, v}); return true })
	sort.Slice(all, func(i, j int) bool { return fmt.Sprint(all[i].k) < fmt.Sprint(all[j].k) })
	for _, e := range all {
		if !f(e.k, e.v) {
			return
		}
	}
}

// Pool: under exploration a LIFO list (Get returns the most recently Put object or New()).
type Pool struct {
	New   func() any
	p     sync.Pool
	items []any
	obj   vsched.SyncObj
}

func (p *Pool) Get() any {
	if !vsched.Exploring() {
		p.p.New = p.New
		return p.p.Get()
	}
	vsched.SyncPoint()
	vsched.Acquire(&p.obj)
	if n := len(p.items); n > 0 {
		x := p.items[n-1]
		p.items = p.items[:n-1]
		return x
	}
	if p.New != nil {
		return p.New()
	}
	return nil
}

func (p *Pool) Put(x any) {
	if !vsched.Exploring() {
		p.p.Put(x)
		return
	}
	vsched.SyncPoint()
	p.items = append(p.items, x)
	vsched.Release(&p.obj)
	// a point right AFTER handing the object back: code that keeps using a pooled object after
	// Put has no later synchronisation operation at which another thread could be scheduled
	vsched.SyncPoint()
}
