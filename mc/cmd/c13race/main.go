// c13race — free-running complement of the C13 interleaving explorer: real goroutines call the
// call alphabet concurrently on shared argument slices; built with -race. This pass samples
// schedules (it is not the deciding step); a report of Go's race detector has no false positives
// and is therefore reported as a violation.
//
//	c13race <out.json> <goroutines> <rounds>
package main

import (
	"encoding/json"
	"fmt"
	"os"
	"strconv"
	"sync"

	"verifmc/c13calls"
)

type Out struct {
	Goroutines int      `json:"goroutines"`
	Rounds     int      `json:"rounds"`
	Calls      int      `json:"calls"`
	Mismatches []string `json:"mismatches"`
	Mutated    string   `json:"mutated,omitempty"`
}

func main() {
	out := os.Args[1]
	g, _ := strconv.Atoi(os.Args[2])
	rounds, _ := strconv.Atoi(os.Args[3])
	env := c13calls.NewEnv()
	alpha := c13calls.Alphabet
	// The concurrent phase runs FIRST so that lazily built state is initialised under contention;
	// the sequential reference is taken afterwards.
	type obs struct {
		first   []string // first result seen per call
		changed []string
	}
	all := make([]obs, g)
	var wg sync.WaitGroup
	start := make(chan struct{})
	for i := 0; i < g; i++ {
		all[i].first = make([]string, len(alpha))
		wg.Add(1)
		go func(i int) {
			defer wg.Done()
			<-start
			o := &all[i]
			for r := 0; r < rounds; r++ {
				for k := range alpha {
					idx := (k + i*7 + r) % len(alpha)
					res := env.Do(alpha[idx])
					if r == 0 {
						o.first[idx] = res
					} else if res != o.first[idx] && len(o.changed) < 5 {
						o.changed = append(o.changed, fmt.Sprintf("call %d %+v returned %s in round 0 and %s in round %d of the same goroutine", idx, alpha[idx], o.first[idx], res, r))
					}
				}
			}
		}(i)
	}
	close(start)
	wg.Wait()
	o := Out{Goroutines: g, Rounds: rounds, Calls: g * rounds * len(alpha), Mutated: env.Mutated()}
	seq := c13calls.NewEnv()
	seen := map[string]bool{}
	add := func(m string) {
		if !seen[m] && len(o.Mismatches) < 10 {
			seen[m] = true
			o.Mismatches = append(o.Mismatches, m)
		}
	}
	for k, c := range alpha {
		ref := seq.Do(c)
		for i := range all {
			if all[i].first[k] != ref {
				add(fmt.Sprintf("call %d %+v returned %s concurrently but %s sequentially", k, c, all[i].first[k], ref))
			}
		}
	}
	for i := range all {
		for _, m := range all[i].changed {
			add(m)
		}
	}
	b, _ := json.MarshalIndent(o, "", " ")
	os.WriteFile(out, b, 0o644)
}
