// c13race — free-running complement of the C13 interleaving explorer: real goroutines call the
// call alphabet concurrently on shared argument slices; built with -race. This pass samples
// schedules (it is not the deciding step); a report of Go's race detector has no false positives
// and is therefore reported as a violation.
//
//	c13race <out.json> <goroutines> <rounds>
package main

import (
	"encoding/json"
	"fmt"
	"os"
	"strconv"
	"sync"

	"verifmc/c13calls"
)

type Out struct {
	Goroutines int      `json:"goroutines"`
	Rounds     int      `json:"rounds"`
	Calls      int      `json:"calls"`
	Mismatches []string `json:"mismatches"`
	Mutated    string   `json:"mutated,omitempty"`
}

func main() {
	out := os.Args[1]
	g, _ := strconv.Atoi(os.Args[2])
	rounds, _ := strconv.Atoi(os.Args[3])
	env := c13calls.NewEnv()
	alpha := c13calls.Alphabet
	// the concurrent phase runs FIRST so that lazily built state is initialised under contention;
	// the sequential reference is taken afterwards in the same process and, independently, the
	// supervisor compares with fresh-process results.
	results := make([][]string, g)
	var wg sync.WaitGroup
	start := make(chan struct{})
	for i := 0; i < g; i++ {
		wg.Add(1)
		go func(i int) {
			defer wg.Done()
			<-start
			for r := 0; r < rounds; r++ {
				for k := range alpha {
					c := alpha[(k+i*7+r)%len(alpha)]
					res := env.Do(c)
					if r == 0 {
						results[i] = append(results[i], fmt.Sprintf("%d\x00%s", (k+i*7+r)%len(alpha), res))
					} else if want := results[i][indexOf(results[i], (k+i*7+r)%len(alpha))]; want != fmt.Sprintf("%d\x00%s", (k+i*7+r)%len(alpha), res) {
						results[i] = append(results[i], "CHANGED\x00"+res+" vs "+want)
					}
				}
			}
		}(i)
	}
	close(start)
	wg.Wait()
	o := Out{Goroutines: g, Rounds: rounds, Calls: g * rounds * len(alpha), Mutated: env.Mutated()}
	ref := make([]string, len(alpha))
	seq := c13calls.NewEnv()
	for k, c := range alpha {
		ref[k] = seq.Do(c)
	}
	seen := map[string]bool{}
	for i := range results {
		for _, r := range results[i] {
			var idx int
			var res string
			if n, _ := fmt.Sscanf(r, "%d", &idx); n == 1 && len(r) > len(strconv.Itoa(idx)) {
				res = r[len(strconv.Itoa(idx))+1:]
				if res != ref[idx] {
					m := fmt.Sprintf("call %d %+v returned %s concurrently but %s sequentially", idx, alpha[idx], res, ref[idx])
					if !seen[m] && len(o.Mismatches) < 10 {
						seen[m] = true
						o.Mismatches = append(o.Mismatches, m)
					}
				}
			} else if !seen[r] && len(o.Mismatches) < 10 {
				seen[r] = true
				o.Mismatches = append(o.Mismatches, "result of a call changed between rounds: "+r)
			}
		}
	}
	b, _ := json.MarshalIndent(o, "", " ")
	os.WriteFile(out, b, 0o644)
}

func indexOf(l []string, idx int) int {
	p := strconv.Itoa(idx) + "\x00"
	for i, s := range l {
		if len(s) >= len(p) && s[:len(p)] == p {
			return i
		}
	}
	return 0
}
