//go:build c13h

// c13h — harness for the C13 explorers; built against the instrumented overlay of /repo.
//
//	c13h info                          initial state dump
//	c13h hist <out.json> i,j,k         fresh-process history: run calls i,j,k in order, record results and state dumps
//	c13h e3 <out.json> <scenario.json> interleaving exploration of one scenario (DFS, iterated preemption bound)
//	c13h replay <scenario.json> <schedule.json>
package main

import (
	"encoding/json"
	"fmt"
	"os"
	"reflect"
	"strconv"
	"strings"
	"time"

	"github.com/github/go-spdx/v2/spdxexp"
	"github.com/github/go-spdx/v2/spdxexp/spdxlicenses"
	"github.com/github/go-spdx/v2/verifsched/vatomic"
	"github.com/github/go-spdx/v2/verifsched/vsched"
	"verifmc/c13calls"
)

func dumpState() string {
	return "spdxexp:\n" + spdxexp.VerifDumpState() + "spdxlicenses:\n" + spdxlicenses.VerifDumpState()
}

func resetState() {
	spdxlicenses.VerifResetState()
	spdxexp.VerifResetState()
	vatomic.Reset()
}

func writeJSON(path string, v any) {
	b, _ := json.MarshalIndent(v, "", " ")
	if err := os.WriteFile(path, b, 0o644); err != nil {
		fmt.Fprintln(os.Stderr, "c13h:", err)
		os.Exit(2)
	}
}

func main() {
	if len(os.Args) < 2 {
		os.Exit(2)
	}
	switch os.Args[1] {
	case "info":
		writeJSON(os.Args[2], map[string]any{"initial_state": dumpState(), "alphabet": c13calls.Alphabet})
	case "hist":
		hist(os.Args[2], os.Args[3])
	case "e3":
		e3(os.Args[2], os.Args[3])
	case "replay":
		replay(os.Args[2], os.Args[3])
	default:
		os.Exit(2)
	}
}

// ---------------------------------------------------------------- E2: one history in a fresh process

type HistOut struct {
	History []int    `json:"history"`
	Results []string `json:"results"`
	Dumps   []string `json:"dumps"` // state dump after each call (index 0 = initial)
	Mutated string   `json:"mutated,omitempty"`
}

func hist(out, spec string) {
	var h []int
	for _, f := range strings.Split(spec, ",") {
		if f == "" {
			continue
		}
		n, err := strconv.Atoi(f)
		if err != nil || n < 0 || n >= len(c13calls.Alphabet) {
			os.Exit(2)
		}
		h = append(h, n)
	}
	e := c13calls.NewEnv()
	o := HistOut{History: h, Dumps: []string{dumpState()}}
	for _, i := range h {
		o.Results = append(o.Results, e.Do(c13calls.Alphabet[i]))
		o.Dumps = append(o.Dumps, dumpState())
		if m := e.Mutated(); m != "" && o.Mutated == "" {
			o.Mutated = m
		}
	}
	writeJSON(out, o)
}

// ---------------------------------------------------------------- E3: interleavings of one scenario

type Scenario struct {
	Name           string            `json:"name"`
	Threads        [][]c13calls.Call `json:"threads"`
	MaxPreemptions int               `json:"max_preemptions"`
	MaxMapDev      int               `json:"max_map_order_deviations"`
	MaxExecutions  int               `json:"max_executions"`
	BudgetS        int               `json:"budget_s"`
}

type Finding struct {
	Kind     string   `json:"kind"` // race | result | mutation | deadlock | divergence | nondeterministic-replay
	Detail   string   `json:"detail"`
	Schedule []int    `json:"schedule"`
	Results  []string `json:"results,omitempty"`
}

type E3Out struct {
	Scenario        string         `json:"scenario"`
	Executions      int            `json:"executions"`
	ChoicePoints    int            `json:"choice_points_total"`
	MaxPoints       int            `json:"max_points_in_one_execution"`
	AccessPoints    int            `json:"shared_access_points_first_execution"`
	SyncPoints      int            `json:"sync_points_first_execution"`
	MapOrderPoints  int            `json:"map_order_points_first_execution"`
	BoundCompleted  int            `json:"preemption_bound_completed"`
	Exhaustive      bool           `json:"exhaustive"`
	Outcomes        map[string]int `json:"distinct_result_vectors"`
	Findings        []Finding      `json:"findings"`
	Unmodelled      []string       `json:"unmodelled"`
	ResetIncomplete string         `json:"reset_incomplete,omitempty"`
	Reference       []string       `json:"sequential_reference"`
	WallS           float64        `json:"wall_s"`
}

type runRes struct {
	x       *vsched.Exec
	results []string
	mutated string
}

func runScenario(sc *Scenario, prefix []int) runRes {
	resetState()
	e := c13calls.NewEnv()
	var bodies []func() any
	for _, th := range sc.Threads {
		calls := th
		bodies = append(bodies, func() any {
			var rs []string
			for _, c := range calls {
				rs = append(rs, e.Do(c))
			}
			return strings.Join(rs, " ;; ")
		})
	}
	x := vsched.Run(prefix, bodies)
	var rs []string
	for _, r := range x.Results() {
		rs = append(rs, fmt.Sprint(r))
	}
	return runRes{x: x, results: rs, mutated: e.Mutated()}
}

func reference(sc *Scenario) []string {
	var ref []string
	for _, th := range sc.Threads {
		resetState()
		e := c13calls.NewEnv()
		var rs []string
		for _, c := range th {
			rs = append(rs, e.Do(c))
		}
		ref = append(ref, strings.Join(rs, " ;; "))
	}
	return ref
}

func choicesOf(x *vsched.Exec) []int {
	out := make([]int, len(x.Points))
	for i, p := range x.Points {
		out[i] = p.Chosen
	}
	return out
}

func e3(out, scPath string) {
	var sc Scenario
	b, err := os.ReadFile(scPath)
	if err != nil || json.Unmarshal(b, &sc) != nil {
		os.Exit(2)
	}
	start := time.Now()
	o := E3Out{Scenario: sc.Name, Outcomes: map[string]int{}, Exhaustive: true}
	initial := dumpState()
	o.Reference = reference(&sc)
	resetState()
	if d := dumpState(); d != initial {
		o.ResetIncomplete = "state after VerifResetState differs from the initial state; executions may not be independent"
		o.Exhaustive = false
	}
	deadline := start.Add(time.Duration(sc.BudgetS) * time.Second)
	seenFinding := map[string]bool{}
	addFinding := func(f Finding) {
		k := f.Kind + "|" + f.Detail
		if seenFinding[k] || len(o.Findings) >= 12 {
			return
		}
		seenFinding[k] = true
		o.Findings = append(o.Findings, f)
	}
	check := func(r runRes) {
		x := r.x
		sch := choicesOf(x)
		if x.Diverged != "" {
			addFinding(Finding{Kind: "divergence", Detail: x.Diverged, Schedule: sch})
		}
		if x.Deadlock {
			addFinding(Finding{Kind: "deadlock", Detail: "no enabled thread although not all threads have finished", Schedule: sch})
			return
		}
		if x.LimitHit {
			o.Exhaustive = false
			return
		}
		for _, rc := range x.Races {
			addFinding(Finding{Kind: "race", Detail: fmt.Sprintf("data race on %s: %s / %s (not ordered by happens-before)", rc.Var, rc.A, rc.B), Schedule: sch})
		}
		if !reflect.DeepEqual(r.results, o.Reference) {
			for i := range r.results {
				if i < len(o.Reference) && r.results[i] != o.Reference[i] {
					addFinding(Finding{Kind: "result", Detail: fmt.Sprintf("thread %d returned %s but sequentially the same calls return %s", i, r.results[i], o.Reference[i]), Schedule: sch, Results: r.results})
					break
				}
			}
		}
		if r.mutated != "" {
			addFinding(Finding{Kind: "mutation", Detail: r.mutated, Schedule: sch})
		}
		o.Outcomes[strings.Join(r.results, " || ")]++
		for _, u := range x.Unmodelled {
			found := false
			for _, v := range o.Unmodelled {
				if v == u {
					found = true
				}
			}
			if !found {
				o.Unmodelled = append(o.Unmodelled, u)
			}
		}
	}
	// iterated bound: 0, 1, ..., MaxPreemptions
	stop := false
	for bound := 0; bound <= sc.MaxPreemptions && !stop; bound++ {
		execs := 0
		var explore func(prefix []int)
		explore = func(prefix []int) {
			if stop {
				return
			}
			if o.Executions >= sc.MaxExecutions || time.Now().After(deadline) {
				stop = true
				o.Exhaustive = false
				return
			}
			r := runScenario(&sc, prefix)
			o.Executions++
			execs++
			x := r.x
			o.ChoicePoints += len(x.Points)
			if len(x.Points) > o.MaxPoints {
				o.MaxPoints = len(x.Points)
			}
			if o.Executions == 1 {
				o.AccessPoints, o.SyncPoints, o.MapOrderPoints = x.AccessN, x.SyncN, x.MapOrderN
				// determinism of replay: the same (empty) prefix must give the same execution
				r2 := runScenario(&sc, prefix)
				if !reflect.DeepEqual(choicesOf(r2.x), choicesOf(x)) || !reflect.DeepEqual(r2.results, r.results) {
					addFinding(Finding{Kind: "nondeterministic-replay", Detail: fmt.Sprintf("the default schedule executed twice gave %v then %v: the library has a source of nondeterminism the harness does not own", r.results, r2.results), Schedule: choicesOf(x)})
				}
			}
			// only count executions that are new at this bound: executions with fewer preemptions were
			// already checked at the previous bound, but re-checking is harmless
			check(r)
			pre, dev := 0, 0
			costs := make([][2]int, len(x.Points))
			for i, p := range x.Points {
				costs[i] = [2]int{pre, dev}
				if p.Kind == "sched" && p.RunningEnabled && p.Chosen != 0 {
					pre++
				}
				if p.Kind == "maporder" && p.Chosen != 0 {
					dev++
				}
			}
			for i := len(prefix); i < len(x.Points); i++ {
				p := x.Points[i]
				for alt := 1; alt < p.N; alt++ {
					cp, cd := costs[i][0], costs[i][1]
					if p.Kind == "sched" && p.RunningEnabled {
						cp++
					}
					if p.Kind == "maporder" {
						cd++
					}
					if cp > bound || cd > sc.MaxMapDev {
						continue
					}
					// at bound b only explore branches that use exactly b preemptions somewhere below;
					// simplest sound choice: explore all branches within the bound (re-visits lower bounds)
					np := append(append([]int{}, choicesOf(x)[:i]...), alt)
					explore(np)
					if stop {
						return
					}
				}
			}
		}
		// iterate: cheap bounds first so the first counterexample has the fewest preemptions
		explore(nil)
		if !stop {
			o.BoundCompleted = bound
		}
		if len(o.Findings) > 0 {
			break
		}
	}
	o.WallS = time.Since(start).Seconds()
	writeJSON(out, o)
}

func replay(scPath, schedPath string) {
	var sc Scenario
	var sch []int
	b, _ := os.ReadFile(scPath)
	json.Unmarshal(b, &sc)
	b, _ = os.ReadFile(schedPath)
	json.Unmarshal(b, &sch)
	ref := reference(&sc)
	r1 := runScenario(&sc, sch)
	r2 := runScenario(&sc, sch)
	if r1.x.Diverged != "" || !reflect.DeepEqual(choicesOf(r1.x), choicesOf(r2.x)) || !reflect.DeepEqual(r1.results, r2.results) {
		fmt.Println("replay DIVERGED:", r1.x.Diverged, r1.results, r2.results)
		os.Exit(2)
	}
	fmt.Println("reference:", ref)
	fmt.Println("observed: ", r1.results)
	for _, rc := range r1.x.Races {
		fmt.Printf("race on %s: %s / %s\n", rc.Var, rc.A, rc.B)
	}
	if r1.x.Deadlock {
		fmt.Println("deadlock")
	}
	if len(r1.x.Races) > 0 || r1.x.Deadlock || !reflect.DeepEqual(r1.results, ref) || r1.mutated != "" {
		fmt.Println("FAILS")
		os.Exit(1)
	}
	fmt.Println("passes")
}
