// instr — instrumenter for the C13 explorers (E2 history, E3 schedules).
//
// Reads the non-test, non-main packages of the module in <repo>'s current working tree and
// writes, for a `go build -overlay`:
//   - an instrumented copy of every file: a vsched.Access scheduling point before every statement
//     that mentions a package-level variable of the module (and before statements in pointer
//     receiver methods of types that package-level variables have), "sync" and "sync/atomic"
//     redirected to shims, range-over-map made an explorer choice;
//   - per package a generated file with VerifResetState / VerifDumpState;
//   - the shim packages under <module>/verifsched/;
//   - report.json describing what was found (shared variables, access points, sync operations,
//     map ranges, unmodelled constructs).
//
// /repo itself is never modified.
package main

import (
	"bytes"
	"encoding/json"
	"fmt"
	"go/ast"
	"go/importer"
	"go/parser"
	"go/printer"
	"go/token"
	"go/types"
	"os"
	"path/filepath"
	"sort"
	"strconv"
	"strings"
)

type varInfo struct {
	Name      string `json:"name"`
	Pkg       string `json:"package"`
	Type      string `json:"type"`
	Written   bool   `json:"written_after_init"`
	MayWrite  bool   `json:"may_be_written_through_reference"`
	Accesses  int    `json:"access_points"`
	HasInit   bool   `json:"has_initializer"`
	Sync      bool   `json:"synchronisation_object"`
	DeclFile  string `json:"file"`
	obj       *types.Var
	initExpr  ast.Expr
	multiInit bool
}

type report struct {
	Module        string     `json:"module"`
	Packages      []string   `json:"packages"`
	SharedVars    []*varInfo `json:"shared_variables"`
	AccessPoints  int        `json:"access_points"`
	ReceiverTypes []string   `json:"state_bearing_receiver_types"`
	SyncImports   int        `json:"files_importing_sync"`
	AtomicImports int        `json:"files_importing_sync_atomic"`
	MapRanges     int        `json:"map_ranges_rewritten"`
	Unmodelled    []string   `json:"unmodelled"`
	InitFuncs     int        `json:"init_functions"`
	Files         int        `json:"files"`
}

func die(format string, a ...any) {
	fmt.Fprintf(os.Stderr, "instr: "+format+"\n", a...)
	os.Exit(2)
}

func main() {
	if len(os.Args) < 4 {
		die("usage: instr <repo> <shimdir> <outdir>")
	}
	repo, shimDir, out := os.Args[1], os.Args[2], os.Args[3]
	mod := modulePath(filepath.Join(repo, "go.mod"))
	rep := &report{Module: mod}
	overlay := map[string]string{}

	var pkgDirs []string
	filepath.WalkDir(repo, func(p string, d os.DirEntry, err error) error {
		if err != nil {
			return nil
		}
		if d.IsDir() {
			n := d.Name()
			if p != repo && (strings.HasPrefix(n, ".") || n == "vendor" || n == "testdata" || n == "verifsched") {
				return filepath.SkipDir
			}
			pkgDirs = append(pkgDirs, p)
		}
		return nil
	})
	sort.Strings(pkgDirs)
	fset := token.NewFileSet()
	imp := importer.ForCompiler(fset, "source", nil)
	// package-level variables of all packages first (so cross-package mentions are tracked too)
	type pkgData struct {
		dir   string
		path  string
		files []*ast.File
		names []string
		info  *types.Info
		pkg   *types.Package
	}
	var pkgs []*pkgData
	for _, dir := range pkgDirs {
		ents, _ := os.ReadDir(dir)
		var files []*ast.File
		var names []string
		for _, e := range ents {
			n := e.Name()
			if e.IsDir() || !strings.HasSuffix(n, ".go") || strings.HasSuffix(n, "_test.go") {
				continue
			}
			f, err := parser.ParseFile(fset, filepath.Join(dir, n), nil, parser.ParseComments)
			if err != nil {
				die("parse %s: %v", n, err)
			}
			if hasBuildIgnore(f) {
				continue
			}
			files = append(files, f)
			names = append(names, n)
		}
		if len(files) == 0 || files[0].Name.Name == "main" {
			continue
		}
		rel, _ := filepath.Rel(repo, dir)
		path := mod
		if rel != "." {
			path = mod + "/" + filepath.ToSlash(rel)
		}
		info := &types.Info{Defs: map[*ast.Ident]types.Object{}, Uses: map[*ast.Ident]types.Object{}, Types: map[ast.Expr]types.TypeAndValue{}, Selections: map[*ast.SelectorExpr]*types.Selection{}}
		conf := types.Config{Importer: imp, Error: func(err error) {}}
		old, _ := os.Getwd()
		os.Chdir(dir)
		pkg, err := conf.Check(path, fset, files, info)
		os.Chdir(old)
		if err != nil && pkg == nil {
			die("type-check %s: %v", path, err)
		}
		pkgs = append(pkgs, &pkgData{dir: dir, path: path, files: files, names: names, info: info, pkg: pkg})
		rep.Packages = append(rep.Packages, path)
	}
	// collect package-level variables
	vars := map[string]*varInfo{} // key: pkgpath.name
	keyOf := func(v *types.Var) string { return v.Pkg().Path() + "." + v.Name() }
	for _, pd := range pkgs {
		for _, f := range pd.files {
			for _, d := range f.Decls {
				gd, ok := d.(*ast.GenDecl)
				if !ok || gd.Tok != token.VAR {
					continue
				}
				for _, sp := range gd.Specs {
					vs := sp.(*ast.ValueSpec)
					for i, id := range vs.Names {
						if id.Name == "_" {
							continue
						}
						obj, _ := pd.info.Defs[id].(*types.Var)
						if obj == nil {
							continue
						}
						vi := &varInfo{Name: id.Name, Pkg: pd.path, Type: obj.Type().String(), obj: obj, DeclFile: filepath.Base(fset.Position(id.Pos()).Filename)}
						// a mutex / once / atomic / sync.Map is a synchronisation object: its operations are
						// scheduling points of the shim, not data accesses (it is still reset and dumped)
						vi.Sync = isSyncType(obj.Type())
						if len(vs.Values) == len(vs.Names) {
							vi.HasInit, vi.initExpr = true, vs.Values[i]
						} else if len(vs.Values) == 1 {
							vi.HasInit, vi.multiInit = true, true
						}
						if !vi.Sync {
							vars[keyOf(obj)] = vi
						}
						rep.SharedVars = append(rep.SharedVars, vi)
					}
				}
			}
		}
	}
	isTracked := func(o types.Object) *varInfo {
		v, ok := o.(*types.Var)
		if !ok || v.Pkg() == nil || v.IsField() {
			return nil
		}
		if v.Parent() != v.Pkg().Scope() {
			return nil
		}
		return vars[keyOf(v)]
	}
	// state-bearing named types: the (element) type of a package-level variable
	stateTypes := map[*types.TypeName]bool{}
	var addType func(t types.Type, depth int)
	addType = func(t types.Type, depth int) {
		if depth > 4 {
			return
		}
		switch x := t.(type) {
		case *types.Named:
			if x.Obj().Pkg() != nil && strings.HasPrefix(x.Obj().Pkg().Path(), mod) {
				if !stateTypes[x.Obj()] {
					stateTypes[x.Obj()] = true
					addType(x.Underlying(), depth+1)
				}
			}
		case *types.Pointer:
			addType(x.Elem(), depth+1)
		case *types.Slice:
			addType(x.Elem(), depth+1)
		case *types.Array:
			addType(x.Elem(), depth+1)
		case *types.Map:
			addType(x.Key(), depth+1)
			addType(x.Elem(), depth+1)
		case *types.Struct:
			for i := 0; i < x.NumFields(); i++ {
				addType(x.Field(i).Type(), depth+1)
			}
		}
	}
	for _, vi := range vars {
		addType(vi.obj.Type(), 0)
	}
	// Only types whose fields/elements are assigned somewhere outside composite literals can change
	// after construction; instances of the others are immutable and their methods need no points.
	mutable := map[*types.TypeName]bool{}
	markMutable := func(info *types.Info, lhs ast.Expr) {
		e := lhs
		for {
			var inner ast.Expr
			switch x := e.(type) {
			case *ast.SelectorExpr:
				inner = x.X
			case *ast.IndexExpr:
				inner = x.X
			case *ast.StarExpr:
				inner = x.X
			case *ast.ParenExpr:
				inner = x.X
			case *ast.SliceExpr:
				inner = x.X
			default:
				return
			}
			if tv, ok := info.Types[inner]; ok {
				t := tv.Type
				if p, ok := t.(*types.Pointer); ok {
					t = p.Elem()
				}
				if n, ok := t.(*types.Named); ok {
					mutable[n.Obj()] = true
				}
			}
			e = inner
		}
	}
	for _, pd := range pkgs {
		for _, f := range pd.files {
			ast.Inspect(f, func(n ast.Node) bool {
				switch x := n.(type) {
				case *ast.AssignStmt:
					for _, l := range x.Lhs {
						markMutable(pd.info, l)
					}
				case *ast.IncDecStmt:
					markMutable(pd.info, x.X)
				case *ast.RangeStmt:
					if x.Tok == token.ASSIGN {
						if x.Key != nil {
							markMutable(pd.info, x.Key)
						}
						if x.Value != nil {
							markMutable(pd.info, x.Value)
						}
					}
				case *ast.CallExpr:
					if id, ok := x.Fun.(*ast.Ident); ok && (id.Name == "delete" || id.Name == "clear" || id.Name == "copy") && len(x.Args) > 0 {
						markMutable(pd.info, &ast.StarExpr{X: x.Args[0]})
					}
				}
				return true
			})
		}
	}
	for tn := range stateTypes {
		if !mutable[tn] {
			delete(stateTypes, tn)
		}
	}
	for tn := range stateTypes {
		rep.ReceiverTypes = append(rep.ReceiverTypes, tn.Pkg().Path()+"."+tn.Name())
	}
	sort.Strings(rep.ReceiverTypes)

	// pass 1: which variables are written (definitely or maybe) outside init
	for _, pd := range pkgs {
		for _, f := range pd.files {
			for _, d := range f.Decls {
				fd, ok := d.(*ast.FuncDecl)
				if !ok || fd.Body == nil || (fd.Recv == nil && fd.Name.Name == "init") {
					continue
				}
				ast.Inspect(fd.Body, func(n ast.Node) bool {
					classifyWrites(n, pd.info, isTracked, func(vi *varInfo, definite bool) {
						if definite {
							vi.Written = true
						} else {
							vi.MayWrite = true
						}
					})
					return true
				})
			}
		}
	}

	unmodelled := map[string]bool{}
	// pass 2: rewrite
	for _, pd := range pkgs {
		rel, _ := filepath.Rel(repo, pd.dir)
		outDir := filepath.Join(out, "src", rel)
		os.MkdirAll(outDir, 0o755)
		initN := 0
		var resetCalls []string // in file order; reordered below by InitOrder
		resetFns := map[string]string{}
		for fi, f := range pd.files {
			rep.Files++
			rw := &rewriter{fset: fset, info: pd.info, isTracked: isTracked, stateTypes: stateTypes, mod: mod, rep: rep, unmodelled: unmodelled, file: pd.names[fi]}
			rw.file = filepath.ToSlash(filepath.Join(rel, pd.names[fi]))
			var extra bytes.Buffer
			for _, d := range f.Decls {
				switch x := d.(type) {
				case *ast.FuncDecl:
					if x.Body == nil {
						continue
					}
					if x.Recv == nil && x.Name.Name == "init" {
						initN++
						rep.InitFuncs++
						name := fmt.Sprintf("verifInit%d_%d", fi, initN)
						x.Name = ast.NewIdent(name)
						fmt.Fprintf(&extra, "\nfunc init() { %s() }\n", name)
						resetCalls = append(resetCalls, name+"()")
					}
					rw.recv = nil
					if x.Recv != nil && len(x.Recv.List) == 1 && len(x.Recv.List[0].Names) == 1 {
						if st, ok := x.Recv.List[0].Type.(*ast.StarExpr); ok {
							var tid *ast.Ident
							switch b := st.X.(type) {
							case *ast.Ident:
								tid = b
							case *ast.IndexExpr:
								tid, _ = b.X.(*ast.Ident)
							}
							if tid != nil {
								if tn, ok := pd.info.Uses[tid].(*types.TypeName); ok && stateTypes[tn] && x.Recv.List[0].Names[0].Name != "_" {
									rw.recv, _ = pd.info.Defs[x.Recv.List[0].Names[0]].(*types.Var)
									rw.recvType = tn.Name()
								}
							}
						}
					}
					rw.block(x.Body)
				case *ast.GenDecl:
					if x.Tok == token.VAR {
						// function literals in initialisers
						for _, sp := range x.Specs {
							for _, v := range sp.(*ast.ValueSpec).Values {
								rw.funcLits(v)
							}
						}
					}
				}
			}
			// reset functions for the variables declared in this file (initializer text re-evaluated here,
			// where its imports are in scope)
			for _, d := range f.Decls {
				gd, ok := d.(*ast.GenDecl)
				if !ok || gd.Tok != token.VAR {
					continue
				}
				for _, sp := range gd.Specs {
					vs := sp.(*ast.ValueSpec)
					if len(vs.Values) == 0 {
						continue
					}
					var lhs []string
					for _, id := range vs.Names {
						lhs = append(lhs, id.Name)
					}
					var rhs []string
					for _, v := range vs.Values {
						var b bytes.Buffer
						printer.Fprint(&b, fset, v)
						rhs = append(rhs, b.String())
					}
					fn := "verifResetVar_" + strings.ReplaceAll(strings.Join(lhs, "_"), "_", "") + fmt.Sprintf("_%d", len(resetFns))
					allBlank := true
					for _, l := range lhs {
						if l != "_" {
							allBlank = false
						}
					}
					if allBlank {
						continue
					}
					fmt.Fprintf(&extra, "\nfunc %s() { %s = %s }\n", fn, strings.Join(lhs, ", "), strings.Join(rhs, ", "))
					for _, id := range vs.Names {
						resetFns[id.Name] = fn
					}
				}
			}
			rw.fixImports(f)
			var keep []string
			for _, cg := range f.Comments {
				for _, c := range cg.List {
					if strings.HasPrefix(c.Text, "//go:build") && c.Pos() < f.Package {
						keep = append(keep, c.Text)
					}
					if strings.HasPrefix(c.Text, "//go:embed") || strings.HasPrefix(c.Text, "//go:linkname") {
						unmodelled["compiler directive "+c.Text+" dropped from the instrumented copy of "+rw.file] = true
					}
				}
			}
			f.Comments = nil
			f.Doc = nil
			var buf bytes.Buffer
			for _, k := range keep {
				buf.WriteString(k + "\n\n")
			}
			if err := printer.Fprint(&buf, fset, f); err != nil {
				die("print %s: %v", pd.names[fi], err)
			}
			buf.Write(extra.Bytes())
			dst := filepath.Join(outDir, pd.names[fi])
			os.WriteFile(dst, buf.Bytes(), 0o644)
			overlay[filepath.Join(pd.dir, pd.names[fi])] = dst
		}
		// generated state file
		var g bytes.Buffer
		fmt.Fprintf(&g, "// Code generated by /verif/mc/cmd/instr. DO NOT EDIT.\n\npackage %s\n\nimport %q\n\n", pd.pkg.Name(), mod+"/verifsched/vsched")
		fmt.Fprintf(&g, "// VerifResetState puts every package-level variable back to its initial value (zero, then\n// initialisers in dependency order, then init functions).\nfunc VerifResetState() {\n")
		var own []*varInfo
		for _, vi := range rep.SharedVars {
			if vi.Pkg == pd.path {
				own = append(own, vi)
			}
		}
		for _, vi := range own {
			if !vi.HasInit {
				fmt.Fprintf(&g, "\tvsched.Zero(&%s)\n", vi.Name)
			}
		}
		done := map[string]bool{}
		for _, in := range pd.info.InitOrder {
			for _, l := range in.Lhs {
				if fn, ok := resetFns[l.Name()]; ok && !done[fn] {
					done[fn] = true
					fmt.Fprintf(&g, "\t%s()\n", fn)
				}
			}
		}
		var rest []string
		for _, fn := range resetFns {
			if !done[fn] {
				rest = append(rest, fn)
			}
		}
		sort.Strings(rest)
		for _, fn := range rest {
			if !done[fn] {
				done[fn] = true
				fmt.Fprintf(&g, "\t%s()\n", fn)
			}
		}
		for _, c := range resetCalls {
			fmt.Fprintf(&g, "\t%s\n", c)
		}
		fmt.Fprintf(&g, "}\n\n// VerifDumpState is a canonical deep dump of every package-level variable.\nfunc VerifDumpState() string {\n\tvar d vsched.Dumper\n")
		for _, vi := range own {
			fmt.Fprintf(&g, "\td.Var(%q, &%s)\n", vi.Name, vi.Name)
		}
		fmt.Fprintf(&g, "\treturn d.String()\n}\n\nvar _ = vsched.Point\n")
		dst := filepath.Join(outDir, "zz_verif_state.go")
		os.WriteFile(dst, g.Bytes(), 0o644)
		overlay[filepath.Join(pd.dir, "zz_verif_state.go")] = dst
	}
	// shim packages
	for _, sp := range []string{"vsched", "vsync", "vatomic"} {
		ents, err := os.ReadDir(filepath.Join(shimDir, sp))
		if err != nil {
			die("shim dir: %v", err)
		}
		for _, e := range ents {
			if !strings.HasSuffix(e.Name(), ".go") {
				continue
			}
			b, _ := os.ReadFile(filepath.Join(shimDir, sp, e.Name()))
			b = bytes.ReplaceAll(b, []byte("github.com/github/go-spdx/v2/verifsched"), []byte(mod+"/verifsched"))
			dstDir := filepath.Join(out, "src", "verifsched", sp)
			os.MkdirAll(dstDir, 0o755)
			dst := filepath.Join(dstDir, e.Name())
			os.WriteFile(dst, b, 0o644)
			overlay[filepath.Join(repo, "verifsched", sp, e.Name())] = dst
		}
	}
	for _, vi := range rep.SharedVars {
		rep.AccessPoints += vi.Accesses
	}
	for u := range unmodelled {
		rep.Unmodelled = append(rep.Unmodelled, u)
	}
	sort.Strings(rep.Unmodelled)
	sort.Slice(rep.SharedVars, func(i, j int) bool {
		return rep.SharedVars[i].Pkg+rep.SharedVars[i].Name < rep.SharedVars[j].Pkg+rep.SharedVars[j].Name
	})
	ob, _ := json.MarshalIndent(map[string]any{"Replace": overlay}, "", " ")
	os.WriteFile(filepath.Join(out, "overlay.json"), ob, 0o644)
	rb, _ := json.MarshalIndent(rep, "", " ")
	os.WriteFile(filepath.Join(out, "report.json"), rb, 0o644)
}

func isCompositeLit(e ast.Expr) bool {
	for {
		switch x := e.(type) {
		case *ast.ParenExpr:
			e = x.X
		case *ast.CompositeLit:
			return true
		default:
			return false
		}
	}
}

// isSyncType: a named type of package sync or sync/atomic (or a pointer to one).
func isSyncType(t types.Type) bool {
	if p, ok := t.(*types.Pointer); ok {
		t = p.Elem()
	}
	n, ok := t.(*types.Named)
	if !ok || n.Obj().Pkg() == nil {
		return false
	}
	p := n.Obj().Pkg().Path()
	return p == "sync" || p == "sync/atomic"
}

func hasBuildIgnore(f *ast.File) bool {
	for _, cg := range f.Comments {
		if cg.Pos() > f.Package {
			break
		}
		for _, c := range cg.List {
			if strings.HasPrefix(c.Text, "//go:build ignore") || strings.HasPrefix(c.Text, "// +build ignore") {
				return true
			}
		}
	}
	return false
}

func modulePath(gomod string) string {
	b, err := os.ReadFile(gomod)
	if err != nil {
		die("%v", err)
	}
	for _, l := range strings.Split(string(b), "\n") {
		l = strings.TrimSpace(l)
		if strings.HasPrefix(l, "module ") {
			return strings.TrimSpace(strings.TrimPrefix(l, "module "))
		}
	}
	die("no module line in %s", gomod)
	return ""
}

// baseIdent returns the identifier at the base of x, x.f, x[i], *x, (x) chains.
func baseIdent(e ast.Expr) *ast.Ident {
	for {
		switch x := e.(type) {
		case *ast.Ident:
			return x
		case *ast.SelectorExpr:
			e = x.X
		case *ast.IndexExpr:
			e = x.X
		case *ast.IndexListExpr:
			e = x.X
		case *ast.SliceExpr:
			e = x.X
		case *ast.StarExpr:
			e = x.X
		case *ast.ParenExpr:
			e = x.X
		case *ast.TypeAssertExpr:
			e = x.X
		default:
			return nil
		}
	}
}

func isRefType(t types.Type) bool {
	switch u := t.Underlying().(type) {
	case *types.Slice, *types.Map, *types.Pointer, *types.Chan, *types.Interface, *types.Signature:
		return true
	case *types.Struct:
		for i := 0; i < u.NumFields(); i++ {
			if isRefType(u.Field(i).Type()) {
				return true
			}
		}
	case *types.Array:
		return isRefType(u.Elem())
	}
	return false
}

// classifyWrites reports definite and possible writes to tracked variables caused by node n itself.
func classifyWrites(n ast.Node, info *types.Info, isTracked func(types.Object) *varInfo, found func(*varInfo, bool)) {
	tracked := func(e ast.Expr) *varInfo {
		id := baseIdent(e)
		if id == nil {
			return nil
		}
		if o := info.Uses[id]; o != nil {
			return isTracked(o)
		}
		return nil
	}
	switch x := n.(type) {
	case *ast.AssignStmt:
		for _, l := range x.Lhs {
			if vi := tracked(l); vi != nil {
				found(vi, true)
			}
		}
	case *ast.IncDecStmt:
		if vi := tracked(x.X); vi != nil {
			found(vi, true)
		}
	case *ast.RangeStmt:
		if x.Tok == token.ASSIGN {
			for _, l := range []ast.Expr{x.Key, x.Value} {
				if l != nil {
					if vi := tracked(l); vi != nil {
						found(vi, true)
					}
				}
			}
		}
	case *ast.UnaryExpr:
		if x.Op == token.AND {
			if vi := tracked(x.X); vi != nil {
				found(vi, false)
			}
		}
	case *ast.CallExpr:
		if id, ok := x.Fun.(*ast.Ident); ok {
			if _, isBuiltin := info.Uses[id].(*types.Builtin); isBuiltin {
				switch id.Name {
				case "delete", "copy", "clear":
					if len(x.Args) > 0 {
						if vi := tracked(x.Args[0]); vi != nil {
							found(vi, true)
						}
					}
				}
				return
			}
		}
		// reference-typed tracked variable passed to a call: the callee may write through it
		for _, a := range x.Args {
			if vi := tracked(a); vi != nil {
				if tv, ok := info.Types[a]; ok && isRefType(tv.Type) {
					found(vi, false)
				}
			}
		}
		// method call with pointer receiver on a tracked variable
		if sel, ok := x.Fun.(*ast.SelectorExpr); ok {
			if s := info.Selections[sel]; s != nil && s.Kind() == types.MethodVal {
				if vi := tracked(sel.X); vi != nil {
					if sig, ok := s.Obj().Type().(*types.Signature); ok && sig.Recv() != nil {
						if _, ptr := sig.Recv().Type().(*types.Pointer); ptr {
							found(vi, false)
						}
					}
				}
			}
		}
	}
}

type rewriter struct {
	fset       *token.FileSet
	info       *types.Info
	isTracked  func(types.Object) *varInfo
	stateTypes map[*types.TypeName]bool
	mod        string
	rep        *report
	unmodelled map[string]bool
	file       string
	recv       *types.Var
	recvType   string
	needSched  bool
	tmpN       int
}

type mention struct {
	vi    *varInfo
	recv  bool
	write bool
}

// shallow collects mentions in the parts of stmt that are evaluated as part of stmt itself
// (not in nested blocks or function literal bodies).
func (rw *rewriter) shallow(stmt ast.Stmt) []mention {
	seen := map[string]*mention{}
	var order []string
	add := func(key string, m mention) {
		if old, ok := seen[key]; ok {
			old.write = old.write || m.write
			return
		}
		mm := m
		seen[key] = &mm
		order = append(order, key)
	}
	var visit func(n ast.Node) bool
	visit = func(n ast.Node) bool {
		switch x := n.(type) {
		case *ast.BlockStmt:
			return false
		case *ast.FuncLit:
			return false
		case *ast.CaseClause:
			for _, e := range x.List {
				ast.Inspect(e, visit)
			}
			return false
		case *ast.CommClause:
			return false
		case *ast.GoStmt:
			rw.unmodelled["go statement ("+rw.where(x.Pos())+")"] = true
		case *ast.SendStmt:
			rw.unmodelled["channel send ("+rw.where(x.Pos())+")"] = true
		case *ast.SelectStmt:
			rw.unmodelled["select ("+rw.where(x.Pos())+")"] = true
		case *ast.UnaryExpr:
			if x.Op == token.ARROW {
				rw.unmodelled["channel receive ("+rw.where(x.Pos())+")"] = true
			}
		case *ast.SelectorExpr:
			if id, ok := x.X.(*ast.Ident); ok {
				if pn, ok := rw.info.Uses[id].(*types.PkgName); ok {
					p := pn.Imported().Path()
					full := p + "." + x.Sel.Name
					switch {
					case p == "math/rand" || p == "math/rand/v2" || p == "crypto/rand":
						rw.unmodelled["randomness: "+full+" ("+rw.where(x.Pos())+")"] = true
					case full == "time.Now" || full == "time.Since" || full == "time.After" || full == "time.Sleep" || full == "time.NewTimer" || full == "time.AfterFunc" || full == "time.Tick":
						rw.unmodelled["clock: "+full+" ("+rw.where(x.Pos())+")"] = true
					case full == "os.Getenv" || full == "os.LookupEnv" || full == "os.Environ":
						rw.unmodelled["environment: "+full+" ("+rw.where(x.Pos())+")"] = true
					}
				}
			}
		case *ast.Ident:
			if o := rw.info.Uses[x]; o != nil {
				if vi := rw.isTracked(o); vi != nil {
					add("v:"+vi.Pkg+"."+vi.Name, mention{vi: vi})
				} else if rw.recv != nil && o == rw.recv {
					add("recv", mention{recv: true})
				}
			}
		}
		// definite writes caused by this node
		classifyWrites(n, rw.info, rw.isTracked, func(vi *varInfo, definite bool) {
			if definite {
				add("v:"+vi.Pkg+"."+vi.Name, mention{vi: vi, write: true})
			}
		})
		if rw.recv != nil {
			rw.recvWrites(n, func() { add("recv", mention{recv: true, write: true}) })
		}
		return true
	}
	switch s := stmt.(type) {
	case *ast.IfStmt:
		if s.Init != nil {
			ast.Inspect(s.Init, visit)
		}
		ast.Inspect(s.Cond, visit)
		if e, ok := s.Else.(*ast.IfStmt); ok {
			for _, m := range rw.shallow(e) {
				k := "recv"
				if m.vi != nil {
					k = "v:" + m.vi.Pkg + "." + m.vi.Name
				}
				add(k, m)
			}
		}
	case *ast.ForStmt:
		for _, n := range []ast.Node{s.Init, s.Cond, s.Post} {
			if n != nil && !isNilNode(n) {
				ast.Inspect(n, visit)
			}
		}
	case *ast.RangeStmt:
		ast.Inspect(s.X, visit)
		classifyWrites(s, rw.info, rw.isTracked, func(vi *varInfo, definite bool) {
			add("v:"+vi.Pkg+"."+vi.Name, mention{vi: vi, write: definite})
		})
	case *ast.SwitchStmt:
		if s.Init != nil {
			ast.Inspect(s.Init, visit)
		}
		if s.Tag != nil {
			ast.Inspect(s.Tag, visit)
		}
		for _, c := range s.Body.List {
			for _, e := range c.(*ast.CaseClause).List {
				ast.Inspect(e, visit)
			}
		}
	case *ast.TypeSwitchStmt:
		if s.Init != nil {
			ast.Inspect(s.Init, visit)
		}
		ast.Inspect(s.Assign, visit)
	case *ast.SelectStmt:
		rw.unmodelled["select ("+rw.where(s.Pos())+")"] = true
	case *ast.LabeledStmt:
		return rw.shallow(s.Stmt)
	case *ast.BlockStmt:
	default:
		ast.Inspect(stmt, visit)
	}
	var out []mention
	for _, k := range order {
		out = append(out, *seen[k])
	}
	return out
}

func isNilNode(n ast.Node) bool {
	switch x := n.(type) {
	case ast.Stmt:
		return x == nil
	case ast.Expr:
		return x == nil
	}
	return false
}

func (rw *rewriter) recvWrites(n ast.Node, found func()) {
	isRecv := func(e ast.Expr) bool {
		id := baseIdent(e)
		return id != nil && rw.info.Uses[id] == rw.recv
	}
	switch x := n.(type) {
	case *ast.AssignStmt:
		for _, l := range x.Lhs {
			if _, plain := l.(*ast.Ident); !plain && isRecv(l) {
				found()
			}
		}
	case *ast.IncDecStmt:
		if _, plain := x.X.(*ast.Ident); !plain && isRecv(x.X) {
			found()
		}
	case *ast.CallExpr:
		if id, ok := x.Fun.(*ast.Ident); ok && (id.Name == "delete" || id.Name == "clear" || id.Name == "copy") && len(x.Args) > 0 && isRecv(x.Args[0]) {
			if _, isBuiltin := rw.info.Uses[id].(*types.Builtin); isBuiltin {
				found()
			}
		}
	}
}

func (rw *rewriter) where(p token.Pos) string {
	pos := rw.fset.Position(p)
	return rw.file + ":" + strconv.Itoa(pos.Line)
}

func (rw *rewriter) accessCall(m mention, pos token.Pos) ast.Stmt {
	rw.needSched = true
	sel := func(name string) ast.Expr {
		return &ast.SelectorExpr{X: ast.NewIdent("vsched"), Sel: ast.NewIdent(name)}
	}
	lit := func(s string) ast.Expr { return &ast.BasicLit{Kind: token.STRING, Value: strconv.Quote(s)} }
	where := lit(rw.where(pos))
	if m.recv {
		kind := "Read"
		if m.write {
			kind = "Write"
		}
		name := "(*" + rw.recvType + ") receiver"
		return &ast.ExprStmt{X: &ast.CallExpr{Fun: sel("Access"), Args: []ast.Expr{ast.NewIdent(rw.recv.Name()), lit(name), sel(kind), where}}}
	}
	m.vi.Accesses++
	full := m.vi.Pkg[strings.LastIndex(m.vi.Pkg, "/")+1:] + "." + m.vi.Name
	if !m.vi.Written && !m.vi.MayWrite {
		return &ast.ExprStmt{X: &ast.CallExpr{Fun: sel("AccessRO"), Args: []ast.Expr{lit(full), lit(full), where}}}
	}
	kind := "Read"
	if m.write {
		kind = "Write"
	}
	return &ast.ExprStmt{X: &ast.CallExpr{Fun: sel("Access"), Args: []ast.Expr{lit(full), lit(full), sel(kind), where}}}
}

func (rw *rewriter) list(in []ast.Stmt) []ast.Stmt {
	var out []ast.Stmt
	for _, s := range in {
		ms := rw.shallow(s)
		for _, m := range ms {
			out = append(out, rw.accessCall(m, s.Pos()))
		}
		s = rw.stmt(s, ms)
		out = append(out, s)
	}
	return out
}

func (rw *rewriter) block(b *ast.BlockStmt) {
	if b == nil {
		return
	}
	b.List = rw.list(b.List)
}

// stmt processes nested blocks of s (and rewrites range-over-map); ms are the mentions of its header.
func (rw *rewriter) stmt(s ast.Stmt, ms []mention) ast.Stmt {
	switch x := s.(type) {
	case *ast.BlockStmt:
		rw.block(x)
	case *ast.IfStmt:
		rw.block(x.Body)
		if x.Else != nil {
			x.Else = rw.stmt(x.Else, nil)
		}
		rw.funcLitsIn(x.Init, x.Cond)
	case *ast.ForStmt:
		rw.block(x.Body)
		// the condition is re-evaluated on every iteration
		if x.Cond != nil || x.Post != nil {
			var pre []ast.Stmt
			for _, m := range ms {
				pre = append(pre, rw.accessCall(m, x.Pos()))
			}
			x.Body.List = append(pre, x.Body.List...)
		}
	case *ast.RangeStmt:
		rw.block(x.Body)
		if tv, ok := rw.info.Types[x.X]; ok {
			if _, isMap := tv.Type.Underlying().(*types.Map); isMap {
				return rw.rangeMap(x)
			}
		}
	case *ast.SwitchStmt:
		for _, c := range x.Body.List {
			cc := c.(*ast.CaseClause)
			cc.Body = rw.list(cc.Body)
		}
	case *ast.TypeSwitchStmt:
		for _, c := range x.Body.List {
			cc := c.(*ast.CaseClause)
			cc.Body = rw.list(cc.Body)
		}
	case *ast.SelectStmt:
		for _, c := range x.Body.List {
			cc := c.(*ast.CommClause)
			cc.Body = rw.list(cc.Body)
		}
	case *ast.LabeledStmt:
		if r, ok := x.Stmt.(*ast.RangeStmt); ok {
			if tv, ok := rw.info.Types[r.X]; ok {
				if _, isMap := tv.Type.Underlying().(*types.Map); isMap {
					rw.unmodelled["labelled range over a map left to the runtime's order ("+rw.where(r.Pos())+")"] = true
					rw.block(r.Body)
					return s
				}
			}
		}
		x.Stmt = rw.stmt(x.Stmt, ms)
	default:
		rw.funcLits(s)
	}
	return s
}

func (rw *rewriter) funcLitsIn(nodes ...ast.Node) {
	for _, n := range nodes {
		if n != nil && !isNilNode(n) {
			rw.funcLits(n)
		}
	}
}

// funcLits instruments the bodies of function literals below n.
func (rw *rewriter) funcLits(n ast.Node) {
	ast.Inspect(n, func(x ast.Node) bool {
		if fl, ok := x.(*ast.FuncLit); ok {
			rw.block(fl.Body)
			return false
		}
		return true
	})
}

// rangeMap rewrites `for k, v := range m { body }` into an iteration over vsched.MapKeys(m).
func (rw *rewriter) rangeMap(r *ast.RangeStmt) ast.Stmt {
	rw.rep.MapRanges++
	rw.needSched = true
	rw.tmpN++
	kname := fmt.Sprintf("verifK%d", rw.tmpN)
	mname := fmt.Sprintf("verifM%d", rw.tmpN)
	kid := func() *ast.Ident { return ast.NewIdent(kname) }
	mid := func() *ast.Ident { return ast.NewIdent(mname) }
	blank := func(e ast.Expr) bool {
		if e == nil {
			return true
		}
		id, ok := e.(*ast.Ident)
		return ok && id.Name == "_"
	}
	var pre []ast.Stmt
	// skip keys deleted during the iteration (as the runtime does)
	pre = append(pre, &ast.IfStmt{
		Init: &ast.AssignStmt{Lhs: []ast.Expr{ast.NewIdent("_"), ast.NewIdent("verifOK")}, Tok: token.DEFINE, Rhs: []ast.Expr{&ast.IndexExpr{X: mid(), Index: kid()}}},
		Cond: &ast.UnaryExpr{Op: token.NOT, X: ast.NewIdent("verifOK")},
		Body: &ast.BlockStmt{List: []ast.Stmt{&ast.BranchStmt{Tok: token.CONTINUE}}},
	})
	tok := r.Tok
	if tok == token.ILLEGAL {
		tok = token.DEFINE
	}
	if !blank(r.Key) {
		pre = append(pre, &ast.AssignStmt{Lhs: []ast.Expr{r.Key}, Tok: tok, Rhs: []ast.Expr{kid()}})
		if tok == token.DEFINE {
			pre = append(pre, &ast.AssignStmt{Lhs: []ast.Expr{ast.NewIdent("_")}, Tok: token.ASSIGN, Rhs: []ast.Expr{r.Key}})
		}
	}
	if !blank(r.Value) {
		pre = append(pre, &ast.AssignStmt{Lhs: []ast.Expr{r.Value}, Tok: tok, Rhs: []ast.Expr{&ast.IndexExpr{X: mid(), Index: kid()}}})
		if tok == token.DEFINE {
			pre = append(pre, &ast.AssignStmt{Lhs: []ast.Expr{ast.NewIdent("_")}, Tok: token.ASSIGN, Rhs: []ast.Expr{r.Value}})
		}
	}
	body := &ast.BlockStmt{List: append(pre, r.Body.List...)}
	loop := &ast.RangeStmt{Key: ast.NewIdent("_"), Value: kid(), Tok: token.DEFINE,
		X:    &ast.CallExpr{Fun: &ast.SelectorExpr{X: ast.NewIdent("vsched"), Sel: ast.NewIdent("MapKeys")}, Args: []ast.Expr{mid()}},
		Body: body}
	return &ast.BlockStmt{List: []ast.Stmt{
		&ast.AssignStmt{Lhs: []ast.Expr{mid()}, Tok: token.DEFINE, Rhs: []ast.Expr{r.X}},
		loop,
	}}
}

func (rw *rewriter) fixImports(f *ast.File) {
	for _, is := range f.Imports {
		p, _ := strconv.Unquote(is.Path.Value)
		switch p {
		case "sync":
			rw.rep.SyncImports++
			if is.Name == nil {
				is.Name = ast.NewIdent("sync")
			}
			is.Path.Value = strconv.Quote(rw.mod + "/verifsched/vsync")
		case "sync/atomic":
			rw.rep.AtomicImports++
			if is.Name == nil {
				is.Name = ast.NewIdent("atomic")
			}
			is.Path.Value = strconv.Quote(rw.mod + "/verifsched/vatomic")
		case "unsafe":
			rw.unmodelled["package unsafe imported by "+rw.file] = true
		case "C":
			rw.unmodelled["cgo in "+rw.file] = true
		}
	}
	if rw.needSched {
		spec := &ast.ImportSpec{Path: &ast.BasicLit{Kind: token.STRING, Value: strconv.Quote(rw.mod + "/verifsched/vsched")}}
		added := false
		for _, d := range f.Decls {
			if gd, ok := d.(*ast.GenDecl); ok && gd.Tok == token.IMPORT {
				if !gd.Lparen.IsValid() {
					gd.Lparen = gd.Pos()
					gd.Rparen = gd.End()
				}
				gd.Specs = append(gd.Specs, spec)
				added = true
				break
			}
		}
		if !added {
			decl := &ast.GenDecl{Tok: token.IMPORT, Specs: []ast.Spec{spec}}
			f.Decls = append([]ast.Decl{decl}, f.Decls...)
		}
		f.Imports = append(f.Imports, spec)
	}
}
