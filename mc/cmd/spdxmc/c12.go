package main

// C12 — shipped tables = SPDX source data. Complete audit of a finite configuration:
// generator re-run in a scratch copy, JSON vs Go tables, disjointness / fold-uniqueness,
// acceptance of every id in its role and in no other.

import (
	"bytes"
	"encoding/json"
	"fmt"
	"os"
	"os/exec"
	"path/filepath"
	"strings"

	"github.com/github/go-spdx/v2/spdxexp/spdxlicenses"
)

var repoRoot = func() string {
	if v := os.Getenv("VERIF_REPO"); v != "" {
		return v
	}
	return "/repo"
}()

type c12Case struct {
	Kind string `json:"kind"` // gen | json | fold | overlap | accept
	ID   string `json:"id,omitempty"`
	Form string `json:"form,omitempty"`
	Want bool   `json:"want_valid,omitempty"`
	File string `json:"file,omitempty"`
}

type spdxJSON struct {
	Licenses []struct {
		ID  string `json:"licenseId"`
		Dep bool   `json:"isDeprecatedLicenseId"`
	} `json:"licenses"`
	Exceptions []struct {
		ID  string `json:"licenseExceptionId"`
		Dep bool   `json:"isDeprecatedLicenseId"`
	} `json:"exceptions"`
}

func loadSourceLists() (active, depr, exc []string, err error) {
	var lj, ej spdxJSON
	b, err := os.ReadFile(filepath.Join(repoRoot, "cmd", "licenses.json"))
	if err != nil {
		return nil, nil, nil, err
	}
	if err = json.Unmarshal(b, &lj); err != nil {
		return nil, nil, nil, err
	}
	b, err = os.ReadFile(filepath.Join(repoRoot, "cmd", "exceptions.json"))
	if err != nil {
		return nil, nil, nil, err
	}
	if err = json.Unmarshal(b, &ej); err != nil {
		return nil, nil, nil, err
	}
	for _, l := range lj.Licenses {
		if l.Dep {
			depr = append(depr, l.ID)
		} else {
			active = append(active, l.ID)
		}
	}
	for _, e := range ej.Exceptions {
		if !e.Dep {
			exc = append(exc, e.ID)
		}
	}
	return
}

var genFiles = []string{"get_licenses.go", "get_deprecated.go", "get_exceptions.go"}

// runGenerator copies the working tree (without .git) to a scratch dir, builds the real generator
// there and runs it once per scenario. A scenario fixes the state of the output directory before the
// run (the three generated files absent / as committed / lengthened by a hand edit / cut short) and the
// JSON it reads (as committed, or with one entry retired, removed or added at the first, a middle or
// the last position: a refresh). The result maps "scenario/file" to "" or to what is wrong; with the
// committed JSON the output must equal the committed file byte for byte, with an edited JSON it must
// equal the committed file's own header + one line per id the edited JSON gives + footer.
func runGenerator() (map[string]string, error) {
	scratch, err := os.MkdirTemp("", "spdxmc-gen-")
	if err != nil {
		return nil, err
	}
	defer os.RemoveAll(scratch)
	cp := exec.Command("rsync", "-a", "--exclude", ".git", repoRoot+"/", scratch+"/")
	if out, err := cp.CombinedOutput(); err != nil {
		return nil, fmt.Errorf("copy: %v: %s", err, out)
	}
	cmdDir := filepath.Join(scratch, "cmd")
	outDir := filepath.Join(scratch, "spdxexp", "spdxlicenses")
	build := exec.Command("go", "build", "-o", "verif-gen", ".")
	build.Dir = cmdDir
	build.Env = append(os.Environ(), "GOFLAGS=-mod=mod", "GOPROXY=off", "GOSUMDB=off", "GOTOOLCHAIN=local", "GOMAXPROCS=4")
	if out, err := build.CombinedOutput(); err != nil {
		return nil, fmt.Errorf("generator does not build: %v: %s", err, out)
	}
	committed := map[string][]byte{}
	for _, f := range genFiles {
		b, err := os.ReadFile(filepath.Join(repoRoot, "spdxexp", "spdxlicenses", f))
		if err != nil {
			return nil, fmt.Errorf("%s not in the repository: %v", f, err)
		}
		committed[f] = b
	}
	origJSON := map[string][]byte{}
	for _, f := range []string{"licenses.json", "exceptions.json"} {
		b, err := os.ReadFile(filepath.Join(cmdDir, f))
		if err != nil {
			return nil, err
		}
		origJSON[f] = b
	}
	res := map[string]string{}
	run := func(scn string, start func(f string) []byte, jsons map[string][]byte, want map[string][]byte) error {
		for f, b := range jsons {
			if err := os.WriteFile(filepath.Join(cmdDir, f), b, 0o644); err != nil {
				return err
			}
		}
		for _, f := range genFiles {
			p := filepath.Join(outDir, f)
			os.Remove(p)
			if b := start(f); b != nil {
				if err := os.WriteFile(p, b, 0o644); err != nil {
					return err
				}
			}
		}
		cmd := exec.Command("./verif-gen", "extract", "-l", "-e")
		cmd.Dir = cmdDir
		cmd.Env = append(os.Environ(), "GOMAXPROCS=2")
		if out, err := cmd.CombinedOutput(); err != nil {
			for _, f := range genFiles {
				res[scn+"/"+f] = fmt.Sprintf("generator failed: %v: %s", err, first(string(out), 300))
			}
			return nil
		}
		for _, f := range genFiles {
			a, e1 := os.ReadFile(filepath.Join(outDir, f))
			b := want[f]
			switch {
			case e1 != nil:
				res[scn+"/"+f] = "generator did not write it: " + e1.Error()
			case !bytes.Equal(a, b):
				la, lb := strings.Split(string(a), "\n"), strings.Split(string(b), "\n")
				i := 0
				for i < len(la) && i < len(lb) && la[i] == lb[i] {
					i++
				}
				ga, gb := "<eof>", "<eof>"
				if i < len(la) {
					ga = la[i]
				}
				if i < len(lb) {
					gb = lb[i]
				}
				res[scn+"/"+f] = fmt.Sprintf("differs from what the JSON says at line %d (%d bytes written, %d expected): generator %q, expected %q", i+1, len(a), len(b), strings.TrimSpace(ga), strings.TrimSpace(gb))
			default:
				res[scn+"/"+f] = ""
			}
		}
		return nil
	}
	// output-directory states, committed JSON
	stray := []byte(strings.Repeat("// stray hand edit\n", 20))
	starts := []struct {
		name string
		fn   func(f string) []byte
	}{
		{"absent", func(string) []byte { return nil }},
		{"as-committed", func(f string) []byte { return committed[f] }},
		{"lengthened", func(f string) []byte { return append(append([]byte{}, committed[f]...), stray...) }},
		{"cut-short", func(f string) []byte { return committed[f][:len(committed[f])/2] }},
	}
	for _, st := range starts {
		if err := run("start:"+st.name, st.fn, origJSON, committed); err != nil {
			return nil, err
		}
	}
	// refreshes of the JSON, regenerated over the committed files
	type jsrc struct{ file, arr, idKey, depKey string }
	for _, js := range []jsrc{{"licenses.json", "licenses", "licenseId", "isDeprecatedLicenseId"}, {"exceptions.json", "exceptions", "licenseExceptionId", "isDeprecatedLicenseId"}} {
		var doc map[string]any
		if err := json.Unmarshal(origJSON[js.file], &doc); err != nil {
			return nil, err
		}
		arr, _ := doc[js.arr].([]any)
		if len(arr) < 3 {
			continue
		}
		type pos struct {
			name string
			i    int
		}
		places := []pos{{"first", 0}, {"middle", len(arr) / 2}, {"last", len(arr) - 1}}
		// the first entry that directly follows a deprecated one (state carried from one entry to the next shows here)
		for i := 1; i < len(arr); i++ {
			prev, _ := arr[i-1].(map[string]any)
			cur, _ := arr[i].(map[string]any)
			pd, _ := prev[js.depKey].(bool)
			cd, _ := cur[js.depKey].(bool)
			if pd && !cd {
				places = append(places, pos{"after-deprecated", i})
				break
			}
		}
		for _, where := range places {
			for _, edit := range []string{"retire", "remove", "add", "add-without-flag", "drop-flag", "add-long", "add-plus"} {
				if (edit == "add-long" || edit == "add-plus") && where.name != "middle" {
					continue
				}
				cp := make([]any, 0, len(arr)+1)
				for i, e := range arr {
					m, _ := e.(map[string]any)
					switch {
					case i == where.i && edit == "remove":
						continue
					case i == where.i && edit == "retire":
						m2 := map[string]any{}
						for k, v := range m {
							m2[k] = v
						}
						d, _ := m[js.depKey].(bool)
						m2[js.depKey] = !d
						cp = append(cp, m2)
						continue
					case i == where.i && edit == "add":
						cp = append(cp, map[string]any{js.idKey: "Verif-Added-1.0", js.depKey: false})
					case i == where.i && edit == "add-plus":
						// '+' is the one character of SPDX ids that text-rendering layers (HTML, URL escaping) rewrite;
						// today only licenses.json holds such ids (GPL-2.0+), so the exception generator never met one
						cp = append(cp, map[string]any{js.idKey: "Verif-Added-1.0+", js.depKey: false})
					case i == where.i && edit == "add-long":
						cp = append(cp, map[string]any{js.idKey: c12LongID, js.depKey: false})
					case i == where.i && edit == "add-without-flag":
						// an entry that says nothing about deprecation is not deprecated
						cp = append(cp, map[string]any{js.idKey: "Verif-Added-1.0"})
					case i == where.i && edit == "drop-flag":
						m2 := map[string]any{}
						for k, v := range m {
							if k != js.depKey {
								m2[k] = v
							}
						}
						cp = append(cp, m2)
						continue
					}
					cp = append(cp, e)
				}
				doc2 := map[string]any{}
				for k, v := range doc {
					doc2[k] = v
				}
				doc2[js.arr] = cp
				nb, err := json.Marshal(doc2)
				if err != nil {
					return nil, err
				}
				jsons := map[string][]byte{"licenses.json": origJSON["licenses.json"], "exceptions.json": origJSON["exceptions.json"]}
				jsons[js.file] = nb
				// expected files by the model: header and footer of the committed file, ids of the edited JSON
				var act, dep, exc []string
				idsOf := func(b []byte, arrKey, idKey string, wantDep, all bool) []string {
					var d map[string]any
					json.Unmarshal(b, &d)
					var out []string
					l, _ := d[arrKey].([]any)
					for _, e := range l {
						m, _ := e.(map[string]any)
						id, _ := m[idKey].(string)
						isDep, _ := m["isDeprecatedLicenseId"].(bool)
						if all || isDep == wantDep {
							out = append(out, id)
						}
					}
					return out
				}
				act = idsOf(jsons["licenses.json"], "licenses", "licenseId", false, false)
				dep = idsOf(jsons["licenses.json"], "licenses", "licenseId", true, false)
				exc = idsOf(jsons["exceptions.json"], "exceptions", "licenseExceptionId", false, false)
				want := map[string][]byte{
					"get_licenses.go":   modelGenFile(committed["get_licenses.go"], act),
					"get_deprecated.go": modelGenFile(committed["get_deprecated.go"], dep),
					"get_exceptions.go": modelGenFile(committed["get_exceptions.go"], exc),
				}
				scn := fmt.Sprintf("refresh:%s:%s-%s", js.file, edit, where.name)
				if err := run(scn, func(f string) []byte { return committed[f] }, jsons, want); err != nil {
					return nil, err
				}
				if edit == "add-long" {
					// the library built with the refreshed tables must accept the new id in its role
					// (an id longer than every id listed today: limits derived from the present data show here)
					probeDir := filepath.Join(scratch, "verifprobe")
					os.MkdirAll(probeDir, 0o755)
					form := c12LongID
					if js.file == "exceptions.json" {
						form = "MIT WITH " + c12LongID
					}
					src := "package main\n\nimport (\n\t\"fmt\"\n\n\t\"github.com/github/go-spdx/v2/spdxexp\"\n)\n\nfunc main() {\n\tok, bad := spdxexp.ValidateLicenses([]string{" + fmt.Sprintf("%q", form) + "})\n\tfmt.Printf(\"valid=%v invalid=%q\\n\", ok, bad)\n}\n"
					if err := os.WriteFile(filepath.Join(probeDir, "main.go"), []byte(src), 0o644); err != nil {
						return nil, err
					}
					pc := exec.Command("go", "run", "./verifprobe")
					pc.Dir = scratch
					pc.Env = append(os.Environ(), "GOFLAGS=-mod=mod", "GOPROXY=off", "GOSUMDB=off", "GOTOOLCHAIN=local", "GOMAXPROCS=4")
					out, err := pc.CombinedOutput()
					key := "runtime:" + js.file + ":added-long-id/ValidateLicenses"
					switch {
					case err != nil:
						res[key] = fmt.Sprintf("the library does not build or run with the regenerated tables: %v: %s", err, first(string(out), 300))
					case !strings.HasPrefix(string(out), "valid=true"):
						res[key] = fmt.Sprintf("after a refresh that adds the id %q (%d bytes) the rebuilt library answers ValidateLicenses([%q]): %s", c12LongID, len(c12LongID), form, strings.TrimSpace(string(out)))
					default:
						res[key] = ""
					}
					os.RemoveAll(probeDir)
				}
			}
		}
	}
	return res, nil
}

// an id longer than every id on today's lists
var c12LongID = "Verif-Added-" + strings.Repeat("long-", 12) + "1.0"

// modelGenFile: the committed file's own header (up to the first id line) and footer (after the last
// id line) around one line per id.
func modelGenFile(committed []byte, ids []string) []byte {
	lines := strings.SplitAfter(string(committed), "\n")
	isID := func(l string) bool { return strings.HasPrefix(l, "\t\t\"") && strings.HasSuffix(l, "\",\n") }
	firstID, lastID := -1, -1
	for i, l := range lines {
		if isID(l) {
			if firstID < 0 {
				firstID = i
			}
			lastID = i
		}
	}
	if firstID < 0 {
		return committed
	}
	var b bytes.Buffer
	for _, l := range lines[:firstID] {
		b.WriteString(l)
	}
	for _, id := range ids {
		b.WriteString("\t\t\"" + id + "\",\n")
	}
	for _, l := range lines[lastID+1:] {
		b.WriteString(l)
	}
	return b.Bytes()
}

// exception forms that must be rejected
var c12BadForms = []string{"%s", "(%s)", "%s+", "MIT AND %s", "%s AND MIT", "%s WITH %s", "MIT WITH MIT WITH %s", "LicenseRef-a WITH %s", "MIT WITH (%s)", "MIT WITH %s+"}

func c12Accept(form, id string, want bool) string {
	if form == "allowed:%s" {
		r := Sat("MIT", []string{id})
		if r.Panic == "" && r.IsErr == want {
			return fmt.Sprintf("Satisfies(\"MIT\", [%q]): error=%v, expected error=%v", id, r.IsErr, !want)
		}
		return ""
	}
	s := strings.ReplaceAll(form, "%s", id)
	v := Valid1(s)
	if v < 0 {
		return ""
	}
	if (v == 1) != want {
		return fmt.Sprintf("%q: valid=%v, expected %v", s, v == 1, want)
	}
	e := Ext(s)
	if e.Panic == "" && e.IsErr == want {
		return fmt.Sprintf("ExtractLicenses(%q): error=%v, expected error=%v", s, e.IsErr, !want)
	}
	return ""
}

func seqDiff(name string, want, got []string) (string, string) {
	for i := 0; i < len(want) || i < len(got); i++ {
		w, g := "<end>", "<end>"
		if i < len(want) {
			w = want[i]
		}
		if i < len(got) {
			g = got[i]
		}
		if w != g {
			return name + ":" + w + "/" + g, fmt.Sprintf("%s list differs from the JSON source at index %d: source %q, Go table %q (source has %d ids, table %d)", name, i, w, g, len(want), len(got))
		}
	}
	return "", ""
}

func init() {
	kinds["c12.case"] = func(raw json.RawMessage) string {
		var cs c12Case
		if err := json.Unmarshal(raw, &cs); err != nil {
			return "bad case"
		}
		switch cs.Kind {
		case "gen":
			res, err := runGenerator()
			if err != nil {
				return err.Error()
			}
			if res[cs.File] != "" {
				return cs.File + " " + res[cs.File]
			}
			return ""
		case "accept":
			return c12Accept(cs.Form, cs.ID, cs.Want)
		default:
			for _, f := range append(c12Static(), c12Isolation()...) {
				if f[0] == cs.Kind+":"+cs.ID {
					return f[1]
				}
			}
			return ""
		}
	}
	register(&PropDef{
		ID:       "C12",
		Title:    "shipped license tables = SPDX source data",
		Explorer: "E1 complete enumeration of a finite configuration (every id of both JSON files and of the three Go tables) + real generator re-run",
		Rule: "state = one id in one role/form; transitions = ValidateLicenses/ExtractLicenses calls on it; the generator is built in a scratch copy of the working tree and run once per scenario = (state of the output files before the run: absent / as committed / lengthened / cut short) or (one JSON entry retired / removed / added / added without a deprecation flag / stripped of its flag / an id containing '+' added, at the first, a middle, the last position and right after a deprecated entry, regenerated over the committed files; for an added id longer than every listed id the library is also rebuilt with the regenerated tables and must accept the id in its role), its three outputs compared byte for byte with the committed files resp. with header + ids of the edited JSON + footer; " +
			"JSON-derived sequences compared with GetLicenses/GetDeprecated/GetExceptions; lists checked pairwise disjoint and fold-unique; every license id accepted alone, every exception id accepted after WITH and rejected in 11 other forms; each table getter called, its result overwritten / filtered in place / appended to, and called again (the tables must not be reachable through what a getter returns); " +
			"non-trivial = ids checked in the exception-rejection forms and suffix forms (where acceptance is not a plain list lookup)",
		Assumptions: []string{"encoding/json with the generator's own field names is the reading of the SPDX JSON", "the stale cmd/*_ids.json|txt files are not produced by the current generator and are outside the claim"},
		Workers:     func(string) int { return 8 },
		Run:         c12Run,
	})
}

// c12Isolation: get a table, write into the returned slice the way callers do (overwrite, in-place
// filter, append), get it again: the second answer must still be the table.
func c12Isolation() [][2]string {
	var out [][2]string
	getters := []struct {
		name string
		get  func() []string
	}{{"GetLicenses", spdxlicenses.GetLicenses}, {"GetDeprecated", spdxlicenses.GetDeprecated}, {"GetExceptions", spdxlicenses.GetExceptions}}
	for _, g := range getters {
		want := append([]string{}, g.get()...)
		l := g.get()
		if len(l) > 2 {
			l[0], l[len(l)-1] = "ZZZ-overwritten", "ZZZ-overwritten"
			kept := l[:0]
			for i, id := range l {
				if i%2 == 0 {
					kept = append(kept, id)
				}
			}
			_ = append(l[:1], "ZZZ-appended")
		}
		got := g.get()
		if k, m := seqDiff(g.name, want, got); k != "" {
			out = append(out, [2]string{"isolation:" + g.name, "after a caller wrote into the slice returned by " + g.name + "(), the next call returns a different table: " + m})
		}
	}
	rg := spdxlicenses.LicenseRanges()
	if len(rg) > 0 && len(rg[0]) > 0 && len(rg[0][0]) > 0 {
		want := rg[0][0][0]
		rg[0][0][0] = "ZZZ-overwritten"
		if got := spdxlicenses.LicenseRanges()[0][0][0]; got != want {
			out = append(out, [2]string{"isolation:LicenseRanges", "after a caller wrote into the value returned by LicenseRanges(), the next call returns " + got + " instead of " + want})
		}
	}
	return out
}

// c12Static: JSON-vs-table and disjointness findings (key, message).
func c12Static() [][2]string {
	t := T()
	var out [][2]string
	a, d, e, err := loadSourceLists()
	if err != nil {
		return [][2]string{{"json:unreadable", "cannot read SPDX JSON: " + err.Error()}}
	}
	if k, m := seqDiff("active", a, t.Active); k != "" {
		out = append(out, [2]string{"json:" + k, m})
	}
	if k, m := seqDiff("deprecated", d, t.Deprecated); k != "" {
		out = append(out, [2]string{"json:" + k, m})
	}
	if k, m := seqDiff("exception", e, t.Exceptions); k != "" {
		out = append(out, [2]string{"json:" + k, m})
	}
	seen := map[string]string{}
	for _, l := range []struct {
		name string
		ids  []string
	}{{"active", t.Active}, {"deprecated", t.Deprecated}, {"exception", t.Exceptions}} {
		for _, id := range l.ids {
			k := strings.ToLower(id)
			if prev, ok := seen[k]; ok {
				out = append(out, [2]string{"fold:" + id, fmt.Sprintf("%q (%s list) equals %s up to letter case", id, l.name, prev)})
			} else {
				seen[k] = fmt.Sprintf("%q (%s list)", id, l.name)
			}
			up := strings.ToUpper(id)
			for _, kw := range []string{"AND", "OR", "WITH"} {
				if strings.HasPrefix(up, kw) && strings.HasPrefix(id, kw) {
					out = append(out, [2]string{"fold:" + id, fmt.Sprintf("%q starts with operator keyword %s: the tokeniser reads the operator first", id, kw)})
				}
			}
			if !idRe.MatchString(strings.TrimSuffix(id, "+")) {
				out = append(out, [2]string{"fold:" + id, fmt.Sprintf("%q contains a character the tokeniser cannot read as part of an id", id)})
			}
		}
	}
	return out
}

func c12Run(c *Ctx) {
	t := T()
	if c.Shard == 0 {
		res, err := runGenerator()
		if err != nil {
			c.NotExhaustive("generator run failed (infrastructure): " + err.Error())
		} else {
			var keys []string
			for k := range res {
				keys = append(keys, k)
			}
			sortStrings(keys)
			for _, k := range keys {
				c.Inc("states")
				c.Inc("transitions")
				c.Inc("evaluations")
				c.Inc("traces")
				if !strings.HasPrefix(k, "start:absent/") {
					c.Inc("nontrivial")
				}
				c.Outcome("generated-file-compared:" + strings.SplitN(k, ":", 2)[0])
				if res[k] != "" {
					c.Report(Violation{Kind: "c12.case", Class: "generator:" + strings.SplitN(k, ":", 2)[0], Key: "gen:" + k, Msg: k + " " + res[k], Size: 1 + len(k), Case: mustJSON(c12Case{Kind: "gen", File: k})})
				}
			}
			c.Sample(func() any {
				return map[string]any{"generator": "cmd built in a scratch copy, run as: extract -l -e", "files_compared": genFiles, "scenarios": len(res) / len(genFiles)}
			})
		}
		for _, f := range append(c12Static(), c12Isolation()...) {
			parts := strings.SplitN(f[0], ":", 2)
			c.Report(Violation{Kind: "c12.case", Class: parts[0], Key: f[0], Msg: f[1], Size: 2, Case: mustJSON(c12Case{Kind: parts[0], ID: parts[1]})})
		}
		c.Add("states", 4)
		c.Add("transitions", 8)
		c.Outcome("getter-isolation")
		n := int64(len(t.Active) + len(t.Deprecated) + len(t.Exceptions))
		c.Add("states", n)
		c.Add("transitions", n)
		c.Add("evaluations", n)
	}
	c.Bound("tables", map[string]any{"active": len(t.Active), "deprecated": len(t.Deprecated), "exceptions": len(t.Exceptions), "bad_exception_forms": c12BadForms})
	var idx int64
	acc := func(form, id string, want bool, nontrivial bool) {
		idx++
		if !c.Mine(idx) {
			return
		}
		msg := c12Accept(form, id, want)
		c.Inc("states")
		c.Add("transitions", 2)
		c.Inc("evaluations")
		c.Inc("traces")
		if nontrivial {
			c.Inc("nontrivial")
		}
		c.Outcome(fmt.Sprintf("form %q want_valid=%v", form, want))
		c.Sample(func() any { return map[string]any{"input": strings.ReplaceAll(form, "%s", id), "expected_valid": want} })
		if msg != "" {
			c.Report(Violation{Kind: "c12.case", Class: fmt.Sprintf("accept:%s", form), Key: "accept:" + form + ":" + id, Msg: msg, Size: len(id),
				Case: mustJSON(c12Case{Kind: "accept", ID: id, Form: form, Want: want})})
		}
	}
	variants := func(id string) []string {
		v := []string{id}
		if c.Thorough() {
			v = append(v, strings.ToLower(id), strings.ToUpper(id), swapCase(id))
		}
		return v
	}
	for _, id := range t.AllLicenseIDs() {
		for _, v := range variants(id) {
			acc("%s", v, true, false)
			acc("(%s)", v, true, false)
			acc("MIT WITH %s", v, false, true)
			acc("%s WITH Bison-exception-2.2", v, true, true)
		}
	}
	for _, id := range t.Exceptions {
		for _, v := range variants(id) {
			acc("MIT WITH %s", v, true, true)
			acc("GPL-2.0+ WITH %s", v, true, true)
			acc("Apache-2.0+ WITH %s", v, true, true)
			acc("(MIT+ WITH %s)", v, true, true)
			acc("MIT WITH %s AND GPL-2.0 WITH %s", v, true, true)
			acc("LGPL-2.1 WITH %s OR (eCos-2.0 WITH %s AND MIT WITH %s)", v, true, true)
			for _, f := range c12BadForms {
				acc(f, v, false, true)
			}
			acc("allowed:%s", v, false, true)
		}
	}
}

func swapCase(s string) string {
	b := []byte(s)
	for i, ch := range b {
		switch {
		case ch >= 'a' && ch <= 'z':
			b[i] = ch - 32
		case ch >= 'A' && ch <= 'Z':
			b[i] = ch + 32
		}
	}
	return string(b)
}
