package main

// C04 — one notion of validity; errors exactly for invalid input. Explorer E1, relational:
// the three entry points are compared with one another on every string / list of the space.

import (
	"encoding/json"
	"fmt"
	"strings"
)

type c04Case struct {
	Kind     string   `json:"kind"` // string | list
	S        string   `json:"s,omitempty"`
	Compound bool     `json:"compound,omitempty"`
	List     []string `json:"list"`
	ListNil  bool     `json:"list_is_nil,omitempty"`
	Expr     string   `json:"expr,omitempty"`
	// for lists: which core entries are compound (by construction)
	CompoundEntries []string `json:"compound_entries,omitempty"`
}

// c04String checks the relations for one string. compound: the token sequence contains AND/OR.
func c04String(s string, compound bool) (msg string, skip bool, valid bool) {
	v := Val([]string{s})
	e := Ext(s)
	s1 := Sat(s, []string{"MIT"})
	s2 := Sat("MIT", []string{s})
	if v.Panic != "" || e.Panic != "" || s1.Panic != "" || s2.Panic != "" {
		return "", true, false
	}
	valid = v.Valid
	switch {
	case v.Valid && len(v.Invalid) != 0:
		return fmt.Sprintf("ValidateLicenses([%q]) = true with invalid list %q", s, v.Invalid), false, valid
	case !v.Valid && (len(v.Invalid) != 1 || v.Invalid[0] != s):
		return fmt.Sprintf("ValidateLicenses([%q]) = false but reports %q", s, v.Invalid), false, valid
	case e.IsErr == v.Valid:
		return fmt.Sprintf("ExtractLicenses(%q) error=%v (%s) but ValidateLicenses says valid=%v", s, e.IsErr, e.Err, v.Valid), false, valid
	case e.IsErr && !e.IsNil:
		return fmt.Sprintf("ExtractLicenses(%q) returned %q together with error %q", s, e.List, e.Err), false, valid
	case s1.IsErr == v.Valid:
		return fmt.Sprintf("Satisfies(%q, [MIT]) error=%v (%s) but ValidateLicenses says valid=%v", s, s1.IsErr, s1.Err, v.Valid), false, valid
	case s1.IsErr && s1.Ok:
		return fmt.Sprintf("Satisfies(%q, [MIT]) returned true together with error %q", s, s1.Err), false, valid
	case s2.IsErr && s2.Ok:
		return fmt.Sprintf("Satisfies(MIT, [%q]) returned true together with error %q", s, s2.Err), false, valid
	}
	wantErr := !v.Valid || compound
	if s2.IsErr != wantErr {
		return fmt.Sprintf("Satisfies(MIT, [%q]) error=%v (%s); expected error=%v (entry valid=%v, compound=%v)", s, s2.IsErr, s2.Err, wantErr, v.Valid, compound), false, valid
	}
	return "", false, valid
}

func c04List(expr string, list []string, isNil bool, compound map[string]bool, vcache map[string]int) (msg string, skip bool) {
	v1 := func(s string) int {
		if x, ok := vcache[s]; ok {
			return x
		}
		x := Valid1(s)
		vcache[s] = x
		return x
	}
	l := list
	if isNil {
		l = nil
	} else if l == nil {
		l = []string{}
	}
	var wantInv []string
	anyBad := false
	for _, x := range l {
		switch v1(x) {
		case -1:
			return "", true
		case 0:
			wantInv = append(wantInv, x)
			anyBad = true
		default:
			if compound[x] {
				anyBad = true
			}
		}
	}
	v := Val(l)
	if v.Panic != "" {
		return "", true
	}
	if v.Valid != (len(wantInv) == 0) || strings.Join(v.Invalid, "\x00") != strings.Join(wantInv, "\x00") || len(v.Invalid) != len(wantInv) {
		return fmt.Sprintf("ValidateLicenses(%q) = (%v, %q); the single-element verdicts give (%v, %q)", l, v.Valid, v.Invalid, len(wantInv) == 0, wantInv), false
	}
	ve := v1(expr)
	if ve < 0 {
		return "", true
	}
	r := Sat(expr, l)
	if r.Panic != "" {
		return "", true
	}
	wantErr := ve == 0 || len(l) == 0 || anyBad
	if r.IsErr != wantErr {
		return fmt.Sprintf("Satisfies(%q, %q) error=%v (%s); expected error=%v (expression valid=%v, list empty=%v, invalid-or-compound entry=%v)", expr, l, r.IsErr, r.Err, wantErr, ve == 1, len(l) == 0, anyBad), false
	}
	if r.IsErr && r.Ok {
		return fmt.Sprintf("Satisfies(%q, %q) returned true together with error %q", expr, l, r.Err), false
	}
	return "", false
}

var c04Core = []string{"MIT", "mit", "GPL-2.0+", "LicenseRef-a", "MIT AND ISC", "(MIT OR ISC)", "MIT OR GPL-2.0 AND ISC", "", "FOO", "MIT AND", "(", " "}
var c04CoreCompound = map[string]bool{"MIT AND ISC": true, "(MIT OR ISC)": true, "MIT OR GPL-2.0 AND ISC": true}
var c04Exprs = []string{"MIT", "MIT AND ISC", "GPL-2.0+ OR LicenseRef-a", "", "MIT AND", "FOO OR MIT"}

var c04Named = []struct {
	s        string
	compound bool
}{
	{"", false}, {" ", false}, {"   ", false}, {"MIT", false}, {" MIT ", false}, {"(MIT)", false}, {"((MIT))", false}, {"( MIT )", false},
	{"MIT AND ISC", true}, {"(MIT AND ISC)", true}, {"MIT OR ISC", true}, {"((MIT) OR (ISC))", true}, {"MIT+", false}, {"GPL-2.0+", false},
	{"GPL-2.0-or-later WITH Bison-exception-2.2", false}, {"(GPL-2.0+ WITH Bison-exception-2.2)", false}, {"LicenseRef-a", false},
	{"DocumentRef-d:LicenseRef-a", false}, {"(DocumentRef-d:LicenseRef-a)", false}, {"Apache-2.0-or-later", false}, {"(Apache-2.0-or-later)", false},
	{"(", false}, {")", false}, {"()", false}, {"MIT WITH", false}, {"DocumentRef-a", false}, {"DocumentRef-a:", false}, {"MIT AND (", false},
	{"(LicenseRef-a OR LicenseRef-b) AND MIT OR ISC", true}, {"MIT\t", false}, {"\xff", false}, {"MIT ISC", false}, {"AND", false},
}

func init() {
	kinds["c04.case"] = func(raw json.RawMessage) string {
		var cs c04Case
		if err := json.Unmarshal(raw, &cs); err != nil {
			return "bad case"
		}
		if cs.Kind == "string" {
			msg, _, _ := c04String(cs.S, cs.Compound)
			return msg
		}
		comp := map[string]bool{}
		for _, x := range cs.CompoundEntries {
			comp[x] = true
		}
		msg, _ := c04List(cs.Expr, cs.List, cs.ListNil, comp, map[string]int{})
		return msg
	}
	register(&PropDef{
		ID:       "C04",
		Title:    "one notion of validity: errors exactly for invalid input",
		Explorer: "E1 bounded-exhaustive string and list enumeration, relational oracle between the three entry points",
		Rule: "strings: every token sequence <= L over the 24-token alphabet (loose rendering) plus 33 named strings, each given to ValidateLicenses([s]), ExtractLicenses(s), Satisfies(s,[MIT]), Satisfies(MIT,[s]) (state = string, 4 transitions); " +
			"lists: every list of length <= k with repetition over a 12-string core (valid single, valid compound, invalid, empty string), plus nil and empty, given to ValidateLicenses and with 6 expressions to Satisfies; " +
			"non-trivial = strings that are valid (agreement on acceptance) or valid-compound, and lists mixing valid and invalid/compound entries",
		Assumptions: []string{"v(s) := the implementation's own ValidateLicenses([s]) verdict (agreement of v with the grammar is C05's job)", "compound(s) is known by construction (the token sequence contains AND/OR)"},
		Run:         c04Run,
	})
}

func c04Run(c *Ctx) {
	full := toks(append(append([]string{}, c05Alphabet...), dontCareTokens...))
	L, K := 4, 3
	if c.Thorough() {
		L, K = 5, 4
	}
	c.Bound("strings", map[string]any{"token_sequences_max_len": L, "named": len(c04Named)})
	c.Bound("lists", map[string]any{"core": c04Core, "max_len": K, "expressions": c04Exprs})
	doString := func(s string, compound bool) {
		if !c.Begin(s) {
			return
		}
		msg, skip, valid := c04String(s, compound)
		c.Inc("states")
		c.Add("transitions", 4)
		c.Inc("evaluations")
		if skip {
			c.Inc("skipped_panic")
			c.Outcome("skipped")
			return
		}
		c.Add("traces", 4)
		switch {
		case valid && compound:
			c.Inc("nontrivial")
			c.Outcome("valid-compound")
		case valid:
			c.Inc("nontrivial")
			c.Outcome("valid-single")
		default:
			c.Outcome("invalid")
		}
		if valid {
			c.Sample(func() any { return map[string]any{"string": s, "valid": valid, "compound": compound} })
		}
		if msg != "" {
			cl := msg
			if i := strings.Index(cl, "("); i > 0 {
				cl = cl[:i]
			}
			c.Report(Violation{Kind: "c04.case", Class: "string:" + cl, Key: "string:" + s, Msg: msg, Size: len(s),
				Case: mustJSON(c04Case{Kind: "string", S: s, Compound: compound})})
		}
	}
	var idx int64
	seq := make([]Tok, 0, 8)
	for l := 1; l <= L; l++ {
		ok := forSeqs(len(full), l, &idx, func(i int64, s []int) bool {
			if !c.Mine(i) {
				return true
			}
			if c.Expired() {
				return false
			}
			seq = seq[:0]
			compound := false
			for _, a := range s {
				seq = append(seq, full[a])
				if full[a].K == TAnd || full[a].K == TOr {
					compound = true
				}
			}
			doString(RenderLoose(seq), compound)
			return true
		})
		if !ok {
			return
		}
	}
	for i, n := range c04Named {
		if c.Mine(int64(i)) {
			doString(n.s, n.compound)
		}
	}
	// lists
	vcache := map[string]int{}
	var compEntries []string
	for k := range c04CoreCompound {
		compEntries = append(compEntries, k)
	}
	doList := func(expr string, l []string, isNil bool) {
		desc := fmt.Sprintf("list %q nil=%v expr %q", l, isNil, expr)
		if !c.Begin(desc) {
			return
		}
		msg, skip := c04List(expr, l, isNil, c04CoreCompound, vcache)
		c.Inc("states")
		c.Add("transitions", 2)
		c.Inc("evaluations")
		if skip {
			c.Inc("skipped_panic")
			return
		}
		c.Add("traces", 2)
		good, bad := 0, 0
		for _, x := range l {
			if vcache[x] == 1 && !c04CoreCompound[x] {
				good++
			} else {
				bad++
			}
		}
		if good > 0 && bad > 0 {
			c.Inc("nontrivial")
			c.Outcome("list-mixed")
		} else if bad == 0 {
			c.Outcome("list-all-valid")
		} else {
			c.Outcome("list-all-bad")
		}
		if msg != "" {
			c.Report(Violation{Kind: "c04.case", Class: "list:" + first(errShape(msg), 20), Key: desc, Msg: msg, Size: 100 + len(desc),
				Case: mustJSON(c04Case{Kind: "list", Expr: expr, List: l, ListNil: isNil, CompoundEntries: compEntries})})
		}
	}
	var li int64
	if c.Mine(0) {
		for _, e := range c04Exprs {
			doList(e, nil, true)
			doList(e, []string{}, false)
		}
	}
	// long lists: the core cycled with different strides (invalid entries at many positions)
	longLens := []int{63, 64, 65, 66, 100, 128, 129, 257}
	if c.Thorough() {
		longLens = append(longLens, 512, 1000, 1025, 4097)
	}
	c.Bound("long_lists", map[string]any{"lengths": longLens, "strides": []int{1, 5, 7}, "repeats_per_list": 3})
	for _, n := range longLens {
		for _, stride := range []int{1, 5, 7} {
			li++
			if !c.Mine(li) {
				continue
			}
			l := make([]string, n)
			for i := range l {
				l[i] = c04Core[(i*stride+n)%len(c04Core)]
			}
			for rep := 0; rep < 3; rep++ { // repeated: the answer must also be the same every time
				doList("MIT", l, false)
			}
		}
	}
	for k := 1; k <= K; k++ {
		forSeqs(len(c04Core), k, &li, func(i int64, s []int) bool {
			if !c.Mine(i) {
				return true
			}
			if c.Expired() {
				return false
			}
			l := make([]string, k)
			for j, a := range s {
				l[j] = c04Core[a]
			}
			for _, e := range c04Exprs {
				doList(e, l, false)
			}
			return true
		})
	}
}

func first(s string, n int) string {
	if len(s) > n {
		return s[:n]
	}
	return s
}
