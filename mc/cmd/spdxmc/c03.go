package main

// C03 — no argument makes the library panic.
// Explorer E1, deviation-bounded: token sequences, valid sentences with byte prefixes / token
// edits / byte substitutions, short raw byte strings, scaling families, slice shapes.

import (
	"encoding/json"
	"fmt"
	"strings"
)

type c03Case struct {
	Fn      string   `json:"fn"`
	Expr    string   `json:"expr,omitempty"`
	List    []string `json:"list"`
	ListNil bool     `json:"list_is_nil,omitempty"`
	// for huge generated inputs only the recipe is stored
	Recipe string `json:"recipe,omitempty"`
	N      int    `json:"n,omitempty"`
}

func c03Call(cs c03Case) string {
	expr, list := cs.Expr, cs.List
	if cs.Recipe != "" {
		expr, list = scaleInput(cs.Recipe, cs.N)
	}
	if cs.ListNil {
		list = nil
	} else if list == nil {
		list = []string{}
	}
	switch cs.Fn {
	case "ValidateLicenses":
		return Val(list).Panic
	case "ExtractLicenses":
		return Ext(expr).Panic
	default:
		return Sat(expr, list).Panic
	}
}

func init() {
	kinds["c03.call"] = func(raw json.RawMessage) string {
		var cs c03Case
		if err := json.Unmarshal(raw, &cs); err != nil {
			return "bad case: " + err.Error()
		}
		if p := c03Call(cs); p != "" {
			return cs.Fn + " panicked: " + p
		}
		return ""
	}
	register(&PropDef{
		ID:       "C03",
		Title:    "no argument makes the library panic",
		Explorer: "E1 deviation-bounded exhaustive input enumeration, recover() oracle + worker survival",
		Rule: "each distinct string is one state, given to ValidateLicenses([s]), ExtractLicenses(s), Satisfies(s,[MIT]), Satisfies(MIT,[s]) (4 transitions); " +
			"spaces: all token sequences <= L (loose+tight), all trees <= n leaves over term forms (full+minimal parens) with every byte prefix, every token edit at distance <= k, every single-byte substitution, " +
			"allowed lists of <= 2 (thorough 3) entries over the 5-7 ways of writing one license x each of those as expression; every listed id against its neighbours by name (predecessor, successor, ids whose text is a prefix of it) as single terms with '+' on neither / either / both side; all byte strings <= 2 over 256 values and <= m over a 40-byte alphabet, scaling families, slice shapes; non-trivial = distinct strings that are not valid expressions (malformed input is where a parser can fall over) ",
		Assumptions: []string{
			"a panic is observed by recover() around the exported call; fatal runtime errors are observed as worker deaths and attributed through the journal",
			"strings are deduplicated by a 64-bit hash per worker (collision probability < 1e-5 over the whole run)",
		},
		Run: c03Run,
	})
}

var c03Bytes = []byte("ANDORWITHMLicensRf-.+:() \t\n\x00\x80\xc3\xff012olyatr")

// probe gives one string to the three functions in its four roles.
func c03Probe(c *Ctx, s string) {
	if !c.MineStr(s) || !c.FirstTime(s) {
		return
	}
	if !c.Begin(s) {
		return
	}
	c.Inc("states")
	c.Inc("evaluations")
	v := Val([]string{s})
	e := Ext(s)
	s1 := Sat(s, []string{"MIT"})
	s2 := Sat("MIT", []string{s})
	c.Add("transitions", 4)
	if v.Panic == "" && !v.Valid {
		c.Inc("nontrivial")
	}
	switch {
	case v.Panic != "" || e.Panic != "" || s1.Panic != "" || s2.Panic != "":
		c.Outcome("panic")
	case v.Valid:
		c.Outcome("valid")
	default:
		c.Outcome("invalid:" + errShape(e.Err))
	}
	c.Sample(func() any { return map[string]any{"input": s, "valid": v.Valid, "extract_err": e.Err} })
	rep := func(fn, p string, cs c03Case) {
		if p == "" {
			return
		}
		cs.Fn = fn
		key := fn + " | " + p
		c.Report(Violation{Kind: "c03.call", Class: key, Key: key, Size: len(s),
			Msg: fmt.Sprintf("%s panics on %q: %s", fn, s, p), Case: mustJSON(cs),
			GoTest: fmt.Sprintf("// must not panic\n%s", goCall(cs))})
	}
	rep("ValidateLicenses", v.Panic, c03Case{List: []string{s}})
	rep("ExtractLicenses", e.Panic, c03Case{Expr: s})
	rep("Satisfies", s1.Panic, c03Case{Expr: s, List: []string{"MIT"}})
	rep("Satisfies", s2.Panic, c03Case{Expr: "MIT", List: []string{s}})
}

func goCall(cs c03Case) string {
	switch cs.Fn {
	case "ValidateLicenses":
		return fmt.Sprintf("spdxexp.ValidateLicenses(%#v)", cs.List)
	case "ExtractLicenses":
		return fmt.Sprintf("spdxexp.ExtractLicenses(%q)", cs.Expr)
	}
	return fmt.Sprintf("spdxexp.Satisfies(%q, %#v)", cs.Expr, cs.List)
}

// errShape strips offsets and quoted lexemes so error messages can be counted by kind.
func errShape(e string) string {
	var b strings.Builder
	inq := false
	for i := 0; i < len(e); i++ {
		ch := e[i]
		if ch == '\'' {
			inq = !inq
			b.WriteByte(ch)
			continue
		}
		if inq {
			continue
		}
		if ch >= '0' && ch <= '9' {
			if b.Len() == 0 || b.String()[b.Len()-1] != '#' {
				b.WriteByte('#')
			}
			continue
		}
		b.WriteByte(ch)
	}
	s := b.String()
	if len(s) > 60 {
		s = s[:60]
	}
	return s
}

var c03Terms = []Term{
	termOf("MIT"), termOf("LicenseRef-x"), termOf("Apache-2.0-or-later"), termOf("GPL-2.0", "+"),
	termOf("MIT", "WITH", "Bison-exception-2.2"), termOf("DocumentRef-d", ":", "LicenseRef-x"),
	termOf("GPL-2.0-or-later", "WITH", "Bison-exception-2.2"), termOf("MIT-only"),
}

func c03Run(c *Ctx) {
	full := toks(append(append([]string{}, c05Alphabet...), dontCareTokens...))
	thorough := c.Thorough()

	// (1) token sequences
	L := 4
	if thorough {
		L = 5
	}
	c.Bound("token_sequences_max_len", L)
	var idx int64
	seq := make([]Tok, 0, 8)
	for l := 1; l <= L; l++ {
		ok := forSeqs(len(full), l, &idx, func(i int64, s []int) bool {
			if c.Expired() {
				return false
			}
			seq = seq[:0]
			for _, a := range s {
				seq = append(seq, full[a])
			}
			lo := RenderLoose(seq)
			c03Probe(c, lo)
			if ti := RenderTight(seq); ti != lo {
				c03Probe(c, ti)
			}
			return true
		})
		if !ok {
			return
		}
	}

	// (2) valid sentences, their byte prefixes, token edits, byte substitutions
	leaves, nTerms, editLeaves, edit2Leaves := 3, 4, 2, 0
	if thorough {
		leaves, nTerms, editLeaves, edit2Leaves = 4, 8, 3, 2
	}
	c.Bound("sentences", map[string]any{"max_leaves": leaves, "term_forms": nTerms, "edit1_up_to_leaves": editLeaves, "edit2_up_to_leaves": edit2Leaves, "all_8_terms_up_to_leaves": 2})
	sentence := func(t *Tree, terms []Term) bool {
		for _, fullParens := range []bool{false, true} {
			if c.Expired() {
				return false
			}
			tk := t.Tokens(terms, fullParens, nil)
			for _, text := range []string{RenderLoose(tk), RenderTight(tk)} {
				c03Probe(c, text)
				for p := 0; p < len(text); p++ {
					c03Probe(c, text[:p])
				}
				if t.Leaves() <= editLeaves {
					bs := []byte(text)
					for p := range bs {
						old := bs[p]
						for _, nb := range c03Bytes {
							bs[p] = nb
							c03Probe(c, string(bs))
						}
						bs[p] = old
					}
				}
			}
			if t.Leaves() <= editLeaves {
				forEdits1(tk, full, func(e []Tok) {
					c03Probe(c, RenderLoose(e))
					c03Probe(c, RenderTight(e))
					if t.Leaves() <= edit2Leaves {
						e1 := append([]Tok{}, e...)
						forEdits1(e1, full, func(e2 []Tok) {
							c03Probe(c, RenderLoose(e2))
						})
					}
				})
			}
		}
		return true
	}
	trees := TreesUpTo(leaves, nTerms)
	for n := 1; n <= leaves; n++ {
		for _, t := range trees[n] {
			if !sentence(t, c03Terms[:nTerms]) {
				return
			}
		}
	}
	if nTerms < len(c03Terms) {
		t8 := TreesUpTo(2, len(c03Terms))
		for n := 1; n <= 2; n++ {
			for _, t := range t8[n] {
				if !sentence(t, c03Terms) {
					return
				}
			}
		}
	}
	// valid expressions in the evaluation path: the C01 tree space given to Satisfies with
	// several allowed lists and to ExtractLicenses (expansion code only runs on valid input)
	evalLeaves := 4
	if thorough {
		evalLeaves = 5
	}
	c.Bound("evaluation_trees_max_leaves", evalLeaves)
	atoms := []string{"MIT", "ISC", "LicenseRef-a", "DocumentRef-d:LicenseRef-a"}
	et := TreesUpTo(evalLeaves, len(atoms))
	lists := [][]string{{"MIT"}, {"LicenseRef-a", "ISC"}, atoms}
	var ti int64
	for n := 1; n <= evalLeaves; n++ {
		for _, t := range et[n] {
			ti++
			if !c.Mine(ti) {
				continue
			}
			if c.Expired() {
				return
			}
			for _, text := range []string{t.RenderFull(atoms, true), t.RenderMin(atoms)} {
				if !c.FirstTime("eval\x00"+text) || !c.Begin(text) {
					continue
				}
				c.Inc("states")
				c.Inc("evaluations")
				for _, l := range lists {
					c.Inc("transitions")
					if r := Sat(text, l); r.Panic != "" {
						key := "Satisfies | " + r.Panic
						c.Report(Violation{Kind: "c03.call", Class: key, Key: key, Size: len(text), Msg: fmt.Sprintf("Satisfies panics on valid %q with %q: %s", text, l, r.Panic),
							Case: mustJSON(c03Case{Fn: "Satisfies", Expr: text, List: l}), GoTest: goCall(c03Case{Fn: "Satisfies", Expr: text, List: l})})
						c.Outcome("panic")
					}
				}
				c.Inc("transitions")
				if r := Ext(text); r.Panic != "" {
					key := "ExtractLicenses | " + r.Panic
					c.Report(Violation{Kind: "c03.call", Class: key, Key: key, Size: len(text), Msg: fmt.Sprintf("ExtractLicenses panics on valid %q: %s", text, r.Panic),
						Case: mustJSON(c03Case{Fn: "ExtractLicenses", Expr: text}), GoTest: goCall(c03Case{Fn: "ExtractLicenses", Expr: text})})
					c.Outcome("panic")
				}
			}
		}
	}

	// (3) raw byte strings
	for a := 0; a < 256; a++ {
		c03Probe(c, string([]byte{byte(a)}))
		for b := 0; b < 256; b++ {
			c03Probe(c, string([]byte{byte(a), byte(b)}))
		}
	}
	c03Probe(c, "")
	m := 3
	if thorough {
		m = 4
	}
	c.Bound("byte_strings", map[string]any{"all_256_values_up_to_len": 2, "alphabet40_up_to_len": m, "alphabet": string(c03Bytes)})
	bs := make([]byte, 0, 8)
	for l := 3; l <= m; l++ {
		var bi int64
		ok := forSeqs(len(c03Bytes), l, &bi, func(i int64, s []int) bool {
			if c.Expired() {
				return false
			}
			bs = bs[:0]
			for _, a := range s {
				bs = append(bs, c03Bytes[a])
			}
			c03Probe(c, string(bs))
			return true
		})
		if !ok {
			return
		}
	}

	// (3b) every substring of a few valid single terms (suffixes and prefixes on their own: "-only",
	// "-or-later", "+ WITH", "Ref-", ":LicenseRef" ...) and the same inside a small expression
	for _, term := range []string{"MIT-only", "Apache-2.0-or-later+", "GPL-2.0-or-later WITH Bison-exception-2.2", "DocumentRef-d:LicenseRef-x", "(MIT OR ISC) AND Zlib", "GPL-2.0+ WITH Classpath-exception-2.0"} {
		for i := 0; i < len(term); i++ {
			for j := i + 1; j <= len(term); j++ {
				sub := term[i:j]
				c03Probe(c, sub)
				c03Probe(c, "MIT AND "+sub)
				c03Probe(c, sub+" OR MIT")
				c03Probe(c, "("+sub+")")
				c03Probe(c, "MIT WITH "+sub)
			}
		}
	}

	// (4) scaling families (only shard 0..len-1 pick them up, one family per worker)
	sizes := []int{10, 100, 1000, 10000}
	if thorough {
		sizes = append(sizes, 30000)
	}
	c.Bound("scaling_families", map[string]any{"recipes": scaleRecipes, "sizes": sizes})
	var fi int64
	for _, rc := range scaleRecipes {
		for _, n := range sizes {
			fi++
			if !c.Mine(fi) {
				continue
			}
			if strings.HasPrefix(rc, "exp:") && n > 10 {
				continue // exponential families belong to C14
			}
			if strings.HasSuffix(rc, "-nested") && n > 1000 {
				continue // quadratic expansion: 10^3 levels is where it stays cheap
			}
			desc := fmt.Sprintf("family %s n=%d", rc, n)
			if !c.Begin(desc) {
				continue
			}
			expr, list := scaleInput(rc, n)
			c.Inc("states")
			c.Inc("evaluations")
			c.Add("transitions", 3)
			c.Outcome("family")
			res := []struct{ fn, p string }{
				{"ValidateLicenses", Val(append([]string{expr}, list...)).Panic},
				{"ExtractLicenses", Ext(expr).Panic},
				{"Satisfies", Sat(expr, list).Panic},
			}
			for _, r := range res {
				if r.p != "" {
					key := r.fn + " | " + r.p
					c.Report(Violation{Kind: "c03.call", Class: key, Key: key, Size: len(expr), Msg: fmt.Sprintf("%s panics on %s: %s", r.fn, desc, r.p),
						Case: mustJSON(c03Case{Fn: r.fn, Recipe: rc, N: n})})
				}
			}
		}
	}

	// (4b) evaluation path with allowed lists that contain duplicates, case duplicates and equivalent spellings
	evalExprs := []string{"MIT", "Apache-2.0", "GPL-3.0-only AND ISC", "LicenseRef-a OR Zlib", "(MIT OR GPL-2.0+) AND LicenseRef-A", "GPL-2.0-only WITH Bison-exception-2.2"}
	evalEntries := []string{"MIT", "mit", "MIT", "GPL-2.0+", "GPL-2.0-or-later", "LicenseRef-a", "LicenseRef-A", "ISC", "GPL-2.0-only WITH Bison-exception-2.2", "Apache-1.0+", "(MIT)"}
	maxList := 3
	if thorough {
		maxList = 4
	}
	c.Bound("evaluation_lists", map[string]any{"expressions": evalExprs, "entries": evalEntries, "max_len": maxList})
	for l := 1; l <= maxList; l++ {
		var li int64
		forSeqs(len(evalEntries), l, &li, func(i int64, s []int) bool {
			if !c.Mine(i) || c.Expired() {
				return !c.Expired()
			}
			list := make([]string, l)
			for k, a := range s {
				list[k] = evalEntries[a]
			}
			if !c.Begin(fmt.Sprintf("lists %q", list)) {
				return true
			}
			c.Inc("states")
			c.Inc("evaluations")
			for _, e := range evalExprs {
				c.Inc("transitions")
				if r := Sat(e, list); r.Panic != "" {
					key := "Satisfies | " + r.Panic
					c.Report(Violation{Kind: "c03.call", Class: key, Key: key, Size: len(e) + 10*l, Msg: fmt.Sprintf("Satisfies panics on %q with allowed list %q: %s", e, list, r.Panic),
						Case: mustJSON(c03Case{Fn: "Satisfies", Expr: e, List: list}), GoTest: goCall(c03Case{Fn: "Satisfies", Expr: e, List: list})})
					c.Outcome("panic")
				}
			}
			c.Inc("transitions")
			if r := Val(list); r.Panic != "" {
				key := "ValidateLicenses | " + r.Panic
				c.Report(Violation{Kind: "c03.call", Class: key, Key: key, Size: 10 * l, Msg: fmt.Sprintf("ValidateLicenses panics on %q: %s", list, r.Panic), Case: mustJSON(c03Case{Fn: "ValidateLicenses", List: list})})
			}
			return true
		})
	}

	// (4b') allowed lists made of the different ways of writing ONE license (x, x+, x-only, x WITH e ...):
	// sort comparators and de-duplication meet nodes that are equal in some fields and differ in others
	vl := 2
	if thorough {
		vl = 3
	}
	for vi, x := range variantIDs {
		v := idVariants(x)
		for l := 1; l <= vl; l++ {
			var li int64
			forSeqs(len(v), l, &li, func(i int64, sq []int) bool {
				if !c.Mine(i+int64(vi)) || c.Expired() {
					return !c.Expired()
				}
				list := make([]string, l)
				for k, a := range sq {
					list[k] = v[a]
				}
				if !c.Begin(fmt.Sprintf("variant lists %q", list)) {
					return true
				}
				c.Inc("states")
				c.Inc("evaluations")
				for _, e := range v {
					c.Inc("transitions")
					if r := Sat(e, list); r.Panic != "" {
						key := "Satisfies | " + r.Panic
						k := c03Case{Fn: "Satisfies", Expr: e, List: list}
						c.Report(Violation{Kind: "c03.call", Class: key, Key: key, Size: len(e) + 10*l, Msg: fmt.Sprintf("Satisfies panics on %q with allowed list %q: %s", e, list, r.Panic), Case: mustJSON(k), GoTest: goCall(k)})
						c.Outcome("panic")
					}
				}
				c.Inc("transitions")
				if r := Val(list); r.Panic != "" {
					key := "ValidateLicenses | " + r.Panic
					c.Report(Violation{Kind: "c03.call", Class: key, Key: key, Size: 10 * l, Msg: fmt.Sprintf("ValidateLicenses panics on %q: %s", list, r.Panic), Case: mustJSON(c03Case{Fn: "ValidateLicenses", List: list})})
				}
				return true
			})
		}
	}
	c.Bound("variant_lists", map[string]any{"licenses": variantIDs, "max_len": vl})

	// (4c) the single-term comparison path for every listed id against the ids nearest to it by name
	// (predecessor / successor in sorted order, ids whose text is a prefix of it), '+' on neither, either, both
	nb := 0
	for i, a := range T().AllLicenseIDs() {
		if strings.HasSuffix(a, "+") {
			continue
		}
		ns := idNeighbours(a)
		nb += len(ns)
		if !c.Mine(int64(i)) {
			continue
		}
		if c.Expired() {
			return
		}
		for _, b := range ns {
			if !c.Begin("neighbours " + a + " / " + b) {
				continue
			}
			c.Inc("states")
			c.Inc("evaluations")
			for _, x := range []string{a, a + "+"} {
				for _, y := range []string{b, b + "+"} {
					for _, pr := range [][2]string{{x, y}, {y, x}} {
						c.Inc("transitions")
						if r := Sat(pr[0], []string{pr[1]}); r.Panic != "" {
							key := "Satisfies | " + r.Panic
							k := c03Case{Fn: "Satisfies", Expr: pr[0], List: []string{pr[1]}}
							c.Report(Violation{Kind: "c03.call", Class: key, Key: key, Size: len(pr[0]) + len(pr[1]), Msg: fmt.Sprintf("Satisfies panics on %q with allowed list [%q]: %s", pr[0], pr[1], r.Panic),
								Case: mustJSON(k), GoTest: goCall(k)})
							c.Outcome("panic")
						}
					}
				}
			}
		}
	}
	c.Bound("name_neighbour_pairs", map[string]any{"ids": len(T().AllLicenseIDs()), "pairs": nb, "calls_per_pair": 8})

	// (5) slice shapes
	reps := []string{"MIT", "", " ", "(", "MIT WITH", "DocumentRef-a", "MIT AND ISC", "GPL-2.0+", "LicenseRef-x", "\xff"}
	var shapes [][]string
	shapes = append(shapes, nil, []string{})
	for _, a := range reps {
		shapes = append(shapes, []string{a})
		for _, b := range reps {
			shapes = append(shapes, []string{a, b})
			for _, d := range reps {
				shapes = append(shapes, []string{a, b, d})
			}
		}
	}
	c.Bound("slice_shapes", len(shapes))
	for si, l := range shapes {
		if !c.Mine(int64(si)) {
			continue
		}
		desc := fmt.Sprintf("slice %q nil=%v", l, l == nil)
		if !c.Begin(desc) {
			continue
		}
		c.Inc("states")
		c.Inc("evaluations")
		c.Add("transitions", 3)
		cs := []c03Case{{Fn: "ValidateLicenses", List: l, ListNil: l == nil}, {Fn: "Satisfies", Expr: "MIT", List: l, ListNil: l == nil}, {Fn: "Satisfies", Expr: "MIT OR (", List: l, ListNil: l == nil}}
		for _, k := range cs {
			if p := c03Call(k); p != "" {
				key := k.Fn + " | " + p
				c.Report(Violation{Kind: "c03.call", Class: key, Key: key, Size: len(desc), Msg: fmt.Sprintf("%s panics on %s: %s", k.Fn, desc, p), Case: mustJSON(k), GoTest: goCall(k)})
			}
		}
	}
}

var scaleRecipes = []string{
	"and-chain", "or-chain", "and-or-alternating", "paren-balanced", "paren-unclosed", "paren-overclosed",
	"long-id", "long-licenseref", "long-documentref", "spaces", "plus-run", "with-chain", "or-later-chain",
	"many-allowed", "many-allowed-distinct", "right-nested", "left-nested", "exp:and-of-ors", "colon-run", "nul-run", "utf8-run",
}

var scaleIDs = []string{"MIT", "ISC", "Apache-2.0", "GPL-2.0-only", "BSD-3-Clause", "Zlib", "MPL-2.0", "0BSD"}

// scaleInput builds the n-th member of a size-parameterised family: (expression, allowed list).
func scaleInput(recipe string, n int) (string, []string) {
	id := func(i int) string { return scaleIDs[i%len(scaleIDs)] }
	join := func(op func(i int) string) string {
		var b strings.Builder
		for i := 0; i < n; i++ {
			if i > 0 {
				b.WriteString(op(i))
			}
			b.WriteString(id(i))
		}
		return b.String()
	}
	allowed := []string{"MIT", "ISC"}
	switch recipe {
	case "and-chain":
		return join(func(int) string { return " AND " }), allowed
	case "or-chain":
		return join(func(int) string { return " OR " }), allowed
	case "and-or-alternating":
		return join(func(i int) string {
			if i%2 == 0 {
				return " AND "
			}
			return " OR "
		}), allowed
	case "paren-balanced":
		return strings.Repeat("(", n) + "MIT" + strings.Repeat(")", n), allowed
	case "paren-unclosed":
		return strings.Repeat("(", n) + "MIT", allowed
	case "paren-overclosed":
		return "MIT" + strings.Repeat(")", n), allowed
	case "long-id":
		return strings.Repeat("a", n*10), allowed
	case "long-licenseref":
		return "LicenseRef-" + strings.Repeat("a", n*10), []string{"LicenseRef-" + strings.Repeat("a", n*10)}
	case "long-documentref":
		return "DocumentRef-" + strings.Repeat("d", n*10) + ":LicenseRef-x", allowed
	case "spaces":
		return strings.Repeat(" ", n*10) + "MIT" + strings.Repeat(" ", n*10), allowed
	case "plus-run":
		return "GPL-2.0" + strings.Repeat("+", n), allowed
	case "with-chain":
		return "MIT" + strings.Repeat(" WITH Bison-exception-2.2", n), allowed
	case "or-later-chain":
		var b strings.Builder
		for i := 0; i < n; i++ {
			if i > 0 {
				b.WriteString(" AND ")
			}
			b.WriteString(id(i) + "-or-later")
		}
		return b.String(), allowed
	case "many-allowed":
		l := make([]string, n)
		for i := range l {
			l[i] = "MIT"
		}
		return "MIT AND ISC", l
	case "many-allowed-distinct":
		ids := T().Active
		l := make([]string, n)
		for i := range l {
			l[i] = ids[i%len(ids)]
		}
		return "MIT AND ISC", l
	case "right-nested":
		var b strings.Builder
		for i := 0; i < n; i++ {
			b.WriteString(id(i))
			if i%2 == 0 {
				b.WriteString(" AND (")
			} else {
				b.WriteString(" OR (")
			}
		}
		b.WriteString("MIT")
		b.WriteString(strings.Repeat(")", n))
		return b.String(), allowed
	case "left-nested":
		var b strings.Builder
		b.WriteString(strings.Repeat("(", n))
		b.WriteString("MIT")
		for i := 0; i < n; i++ {
			if i%2 == 0 {
				b.WriteString(" AND " + id(i) + ")")
			} else {
				b.WriteString(" OR " + id(i) + ")")
			}
		}
		return b.String(), allowed
	case "exp:and-of-ors":
		var b strings.Builder
		for i := 0; i < n; i++ {
			if i > 0 {
				b.WriteString(" AND ")
			}
			b.WriteString("(" + id(2*i) + " OR " + id(2*i+1) + ")")
		}
		return b.String(), allowed
	case "colon-run":
		return "DocumentRef-d" + strings.Repeat(":", n) + "LicenseRef-x", allowed
	case "nul-run":
		return strings.Repeat("\x00", n), allowed
	case "utf8-run":
		return strings.Repeat("é\xff", n), allowed
	}
	return "MIT", allowed
}
