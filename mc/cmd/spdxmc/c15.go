package main

// C15 — error messages locate the offending text in the caller's own string.
// Explorer E1: every viable prefix (<= k items) x bad token x suffix x rendering.

import (
	"encoding/json"
	"fmt"
	"regexp"
	"strconv"
	"strings"
)

type c15Case struct {
	S    string `json:"input"`
	Bad  string `json:"bad_token"`
	Kind string `json:"defect"` // unknown | missing
	At   int    `json:"bad_token_offset"`
	// when set, S is entry Index of this allowed list and the call is Satisfies("MIT", Allowed)
	Allowed []string `json:"allowed,omitempty"`
	Index   int      `json:"index,omitempty"`
	// the keyword before the bad token is written directly against it ("ORFOO"): which part of that word
	// is 'the offending lexeme' is open, so any cited lexeme that stands at the cited offset and covers
	// part of the bad token is accepted
	Glued bool `json:"glued,omitempty"`
}

var offRe = regexp.MustCompile(`offset (\d+)`)
var unkRe = regexp.MustCompile(`unknown license '(.*)' at offset (\d+)`)

func isIDChar(b byte) bool {
	return (b >= 'a' && b <= 'z') || (b >= 'A' && b <= 'Z') || (b >= '0' && b <= '9') || b == '-' || b == '.'
}

func c15Judge(s, errText, bad, kind string, at int, glued bool) string {
	if kind == "misplaced" {
		// an exception id (possibly with a suffix) where a license must stand: whether that counts as an
		// 'unknown identifier' is the library's call, but IF the message cites a lexeme and an offset, the
		// lexeme must stand at that offset of the caller's string and be (part of) the offending word
		if u := unkRe.FindStringSubmatch(errText); u != nil {
			lex := u[1]
			k, _ := strconv.Atoi(u[2])
			if k < 0 || k+len(lex) > len(s) || s[k:k+len(lex)] != lex {
				return fmt.Sprintf("error %q: the input %q does not have %q at offset %d (it is at %d)", errText, s, lex, k, strings.Index(s, lex))
			}
			if lex == "" || k+len(lex) <= at || k >= at+len(bad) {
				return fmt.Sprintf("error %q cites %q at offset %d, which is no part of the offending word %q (offset %d) of %q", errText, lex, k, bad, at, s)
			}
			return ""
		}
		if m := offRe.FindStringSubmatch(errText); m != nil {
			if k, _ := strconv.Atoi(m[1]); k < 0 || k > len(s) {
				return fmt.Sprintf("error %q: offset %d lies outside the input %q (len %d)", errText, k, s, len(s))
			}
		}
		return ""
	}
	m := offRe.FindStringSubmatch(errText)
	if m == nil {
		return fmt.Sprintf("error %q cites no offset although the only defect of %q is the identifier %q", errText, s, bad)
	}
	k, _ := strconv.Atoi(m[1])
	if k < 0 || k > len(s) {
		return fmt.Sprintf("error %q: offset %d lies outside the input %q (len %d)", errText, k, s, len(s))
	}
	if kind == "unknown" {
		u := unkRe.FindStringSubmatch(errText)
		if u == nil {
			return fmt.Sprintf("error %q does not name the unknown identifier %q of %q", errText, bad, s)
		}
		lex := u[1]
		if glued {
			if k+len(lex) > len(s) || s[k:k+len(lex)] != lex {
				return fmt.Sprintf("error %q: the input %q does not have %q at offset %d", errText, s, lex, k)
			}
			if lex == "" || k+len(lex) <= at || k >= at+len(bad) {
				return fmt.Sprintf("error %q cites %q at offset %d, which is no part of the offending identifier %q (offset %d) of %q", errText, lex, k, bad, at, s)
			}
			return ""
		}
		if lex != bad {
			return fmt.Sprintf("error %q cites lexeme %q, the offending identifier of %q is %q", errText, lex, s, bad)
		}
		if k+len(lex) > len(s) || s[k:k+len(lex)] != lex {
			return fmt.Sprintf("error %q: the input %q does not have %q at offset %d (it is at %d)", errText, s, lex, k, strings.Index(s, lex))
		}
		return ""
	}
	if k < len(s) && isIDChar(s[k]) {
		return fmt.Sprintf("error %q: offset %d of %q points at identifier character %q, not at the place where an id is missing", errText, k, s, s[k])
	}
	return ""
}

func c15Check(cs c15Case) (msg string, skip bool) {
	if cs.Allowed != nil {
		r := Sat("MIT", cs.Allowed)
		if r.Panic != "" {
			return "", true
		}
		if !r.IsErr && cs.Kind == "misplaced" {
			return "", true
		}
		if !r.IsErr {
			return fmt.Sprintf("Satisfies(MIT, %q) accepted the bad entry %q", cs.Allowed, cs.S), false
		}
		if m := c15Judge(cs.S, r.Err, cs.Bad, cs.Kind, cs.At, cs.Glued); m != "" {
			return fmt.Sprintf("Satisfies(MIT, %q), entry %d: %s", cs.Allowed, cs.Index, m), false
		}
		return "", false
	}
	r := Sat(cs.S, []string{"MIT"})
	e := Ext(cs.S)
	if r.Panic != "" || e.Panic != "" {
		return "", true
	}
	if cs.Kind == "misplaced" && (!r.IsErr || !e.IsErr) {
		return "", true // this tree accepts the word here (its status is open): nothing to judge
	}
	if !r.IsErr || !e.IsErr {
		return fmt.Sprintf("input %q with bad identifier %q was accepted (Satisfies err=%v, ExtractLicenses err=%v)", cs.S, cs.Bad, r.IsErr, e.IsErr), false
	}
	if m := c15Judge(cs.S, r.Err, cs.Bad, cs.Kind, cs.At, cs.Glued); m != "" {
		return "Satisfies: " + m, false
	}
	if m := c15Judge(cs.S, e.Err, cs.Bad, cs.Kind, cs.At, cs.Glued); m != "" {
		return "ExtractLicenses: " + m, false
	}
	return "", false
}

var c15Items = [][]string{
	{"MIT"}, {"Apache-2.0-or-later"}, {"GPL-2.0-or-later"}, {"MIT-or-later", "+"}, {"GPL-2.0", "+"}, {"LicenseRef-x"},
	{"DocumentRef-d", ":", "LicenseRef-x"}, {"MIT", "WITH", "Bison-exception-2.2"}, {"Apache-2.0-or-later", "WITH", "Bison-exception-2.2"},
	{"("}, {")"}, {"AND"}, {"OR"},
}

// allowed-list entries placed before the bad entry (each makes the scanner rewrite its buffer or not)
var c15Before = [][]string{{"Apache-2.0-or-later"}, {"MIT"}, {"MIT-or-later+", "Zlib-or-later"}, {"GPL-2.0+", "LicenseRef-x"}}

var c15Bad = []struct{ tok, kind string }{
	{"FOO", "unknown"}, {"foo-1.0", "unknown"}, {"and", "unknown"}, {"MIT-or-later-or-later", "unknown"},
	{"LicenseRef-", "missing"}, {"DocumentRef-", "missing"}, {"#", "missing"}, {"\t", "missing"},
	// long lexemes (a message that shortens what it cites no longer cites the caller's text)
	{"Acme-" + strings.Repeat("x", 43), "unknown"}, {"Acme-" + strings.Repeat("x", 44), "unknown"}, {"Acme-Proprietary-License-" + strings.Repeat("1.0.", 20) + "0", "unknown"},
	{strings.Repeat("unknown-", 40) + "id", "unknown"},
	// exception ids where a license must stand, plain and with the suffixes the scanner rewrites
	{"Bison-exception-2.2", "misplaced"}, {"Classpath-exception-2.0-or-later", "misplaced"}, {"GPL-CC-1.0-or-later", "misplaced"}, {"Bison-exception-2.2-only", "misplaced"}, {"mif-exception+", "misplaced"},
}

func init() {
	kinds["c15.case"] = func(raw json.RawMessage) string {
		var cs c15Case
		if err := json.Unmarshal(raw, &cs); err != nil {
			return "bad case"
		}
		msg, _ := c15Check(cs)
		return msg
	}
	register(&PropDef{
		ID:       "C15",
		Title:    "error messages locate the offending text in the caller's own string",
		Explorer: "E1 bounded-exhaustive enumeration of viable prefix x bad token x suffix x spacing, oracle on the error text vs the caller's string",
		Rule: "prefix = every sequence of <= k items over 9 term forms (incl. synthesised and listed -or-later, '+', WITH, refs) and ( ) AND OR that ends where a term may start (checked with R-gram), bad token in {4 unknown ids, 4 missing-id forms, 4 long lexemes, 5 exception ids standing where a license must stand (plain, -or-later, -only, +: judged only on what the message cites)}, suffix in {none, AND MIT, and for prefixes <= 4 items: AND Apache-2.0-or-later, OR MIT-or-later+ AND GPL-2.0-or-later} plus the closing parentheses, rendered loose / tight / padded / glued (keyword written directly against the next token, where this tree accepts that); " +
			"state = rendered string, transitions = Satisfies + ExtractLicenses; non-trivial = inputs whose prefix contains a rewritten (-or-later / +) form or a multi-byte spacing, i.e. where the scanner's private index and the caller's offset can differ",
		Assumptions: []string{"the bad token is the only defect by construction (prefix viability is checked with R-gram)", "the offset is parsed from the message with /offset (\\d+)/, the lexeme with /unknown license '(.*)'/"},
		Run:         c15Run,
	})
}

func c15Run(c *Ctx) {
	K := 6
	if c.Thorough() {
		K = 8
	}
	c.Bound("space", map[string]any{"prefix_items": c15Items, "max_prefix_items": K, "bad_tokens": c15Bad, "renderings": []string{"loose", "tight", "padded", "glued (no space after AND/OR/WITH; only prefixes of <= 5 items that this tree accepts)", "glued-inner (the same, but the keyword right before the bad token keeps its space)"}})
	itemTexts := append([][]string{}, c15Items...)
	// spellings whose validity the properties leave open (deprecated id + suffix): if this tree
	// accepts one, it is a legitimate prefix and the offsets after it must be right too
	var optional []string
	for _, t := range []string{"eCos-2.0-or-later", "eCos-2.0-only", "Nunit-or-later", "wxWindows-or-later"} {
		if Valid1(t) == 1 {
			itemTexts = append(itemTexts, []string{t})
			optional = append(optional, t)
		}
	}
	c.Bound("optional_prefix_terms_accepted_by_this_tree", optional)
	items := make([][]Tok, len(itemTexts))
	for i, it := range itemTexts {
		items[i] = toks(it)
		for k := range items[i] {
			if items[i][k].K == TDontCare {
				items[i][k].K = TLic
			}
		}
	}
	mit := OpTok("MIT")
	rp := OpTok(")")
	var idx int64
	emit := func(prefix []Tok, open int) {
		// "glued" rendering (no space after AND / OR / WITH): the grammar is silent on it, so such a
		// prefix counts as valid only if this tree accepts it completed with a plain id
		gluedOK := false
		if len(prefix) > 0 && len(prefix) <= 5 {
			probe := append(append([]Tok{}, prefix...), mit)
			for i := 0; i < open; i++ {
				probe = append(probe, rp)
			}
			if g := RenderGlued(probe); g != RenderLoose(probe) {
				gluedOK = Valid1(g) == 1
				if gluedOK {
					c.Inc("glued_prefixes_accepted_by_this_tree")
				} else {
					c.Inc("glued_prefixes_rejected_by_this_tree")
				}
			}
		}
		for _, bad := range c15Bad {
			sufs := []int{0, 1}
			if len(prefix) <= 4 {
				// what FOLLOWS the bad token must not move its offset either: suffixes the scanner would rewrite
				sufs = []int{0, 1, 2, 3}
			}
			for _, suf := range sufs {
				for _, rn := range []string{"loose", "tight", "padded", "glued", "glued-inner"} {
					if strings.HasPrefix(rn, "glued") && !gluedOK {
						continue
					}
					renderBy := renderBy
					if rn == "glued-inner" {
						// keywords inside the prefix are glued, the one right before the bad token is not
						keep := len(prefix) - 1
						renderBy = func(_ string, seq []Tok) string { return RenderGluedExcept(seq, keep) }
					}
					// render prefix, then the bad token, then the suffix, tracking where the bad token lands
					badTok := Tok{Text: bad.tok, K: TUnknown}
					seq := append(append([]Tok{}, prefix...), badTok)
					pre := renderBy(rn, seq)
					if rn == "padded" {
						pre = strings.TrimRight(pre, " ")
					}
					at := len(pre) - len(bad.tok)
					switch suf {
					case 1:
						seq = append(seq, OpTok("AND"), mit)
					case 2:
						seq = append(seq, OpTok("AND"), Tok{Text: "Apache-2.0-or-later", K: TLic})
					case 3:
						seq = append(seq, OpTok("OR"), Tok{Text: "MIT-or-later", K: TLic}, Tok{Text: "+", K: TPlus}, OpTok("AND"), Tok{Text: "GPL-2.0-or-later", K: TLic})
					}
					for i := 0; i < open; i++ {
						seq = append(seq, rp)
					}
					s := renderBy(rn, seq)
					if !strings.HasPrefix(s, pre) || s[at:at+len(bad.tok)] != bad.tok {
						c.Inc("render_bookkeeping_mismatch")
						continue
					}
					if !c.FirstTime(s) || !c.Begin(s) {
						continue
					}
					cs := c15Case{S: s, Bad: bad.tok, Kind: bad.kind, At: at, Glued: rn == "glued"}
					msg, skip := c15Check(cs)
					c.Inc("states")
					c.Add("transitions", 2)
					c.Inc("evaluations")
					if skip {
						if bad.kind == "misplaced" {
							c.Inc("skipped_misplaced_word_accepted_or_panic")
						} else {
							c.Inc("skipped_panic")
						}
						continue
					}
					c.Add("traces", 2)
					if strings.Contains(pre, "-or-later") || strings.Contains(pre, "+") || rn == "padded" || strings.HasPrefix(rn, "glued") {
						c.Inc("nontrivial")
					}
					c.Outcome(bad.kind + ":" + rn)
					c.Sample(func() any { return map[string]any{"input": s, "bad_token": bad.tok, "at": at} })
					if msg != "" {
						c.Report(Violation{Kind: "c15.case", Class: bad.kind + ":" + first(errShape(msg), 30), Key: s, Msg: msg, Size: len(s), Case: mustJSON(cs),
							GoTest: fmt.Sprintf("_, err := spdxexp.ExtractLicenses(%q) // %q is at offset %d", s, bad.tok, at)})
					}
					// the same string as an allowed-list entry, after entries that make the scanner rewrite its buffer
					if len(prefix) <= 4 && (rn == "loose" || (rn == "glued" && len(prefix) <= 3) || (rn == "padded" && len(prefix) <= 2)) {
						for _, before := range c15Before {
							al := append(append([]string{}, before...), s)
							cs2 := c15Case{S: s, Bad: bad.tok, Kind: bad.kind, At: at, Allowed: al, Index: len(before), Glued: rn == "glued"}
							msg2, skip2 := c15Check(cs2)
							c.Inc("states")
							c.Inc("transitions")
							c.Inc("evaluations")
							if skip2 {
								c.Inc("skipped_panic")
								continue
							}
							c.Inc("traces")
							c.Inc("nontrivial")
							c.Outcome(bad.kind + ":allowed-entry")
							if msg2 != "" {
								c.Report(Violation{Kind: "c15.case", Class: "allowed-entry:" + bad.kind, Key: fmt.Sprintf("allowed %q", al), Msg: msg2, Size: len(s) + 20*len(before), Case: mustJSON(cs2)})
							}
						}
					}
				}
			}
		}
	}
	if c.Mine(0) {
		emit(nil, 0)
	}
	for k := 1; k <= K; k++ {
		ok := forSeqs(len(items), k, &idx, func(i int64, sq []int) bool {
			if !c.Mine(i) {
				return true
			}
			if c.Expired() {
				return false
			}
			last := sq[k-1]
			if t := items[last][0].K; t != TLP && t != TAnd && t != TOr {
				return true
			}
			var prefix []Tok
			open := 0
			for _, a := range sq {
				prefix = append(prefix, items[a]...)
				switch items[a][0].K {
				case TLP:
					open++
				case TRP:
					open--
				}
				if open < 0 {
					return true
				}
			}
			probe := append(append([]Tok{}, prefix...), mit)
			for i := 0; i < open; i++ {
				probe = append(probe, rp)
			}
			if ok, _ := Derives(probe); !ok {
				return true
			}
			c.Inc("viable_prefixes")
			emit(prefix, open)
			return true
		})
		if !ok {
			return
		}
	}
}
