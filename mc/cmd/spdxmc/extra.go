package main

func extraCommand(cmd string, args []string) bool { return false }
