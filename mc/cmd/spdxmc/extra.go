package main

import (
	"encoding/json"
	"fmt"
	"os"
	"os/exec"
	"regexp"
	"strconv"
	"strings"
	"syscall"
	"time"
)

// extraCommand: "deathcase <property> <desc>" re-executes, in THIS process, the case that killed or
// hung a worker (used by the replayer of worker deaths through a child process with the same limits).
func extraCommand(cmd string, args []string) bool {
	if cmd != "deathcase" || len(args) < 2 {
		return false
	}
	lim := uint64(envInt("VERIF_WORKER_AS_GB", 8)) << 30
	syscall.Setrlimit(syscall.RLIMIT_AS, &syscall.Rlimit{Cur: lim, Max: lim})
	runDeathCase(args[0], args[1])
	return true
}

var famRe = regexp.MustCompile(`^(?:(.*) \| )?family (.*) n=(\d+)$`)

func runDeathCase(prop, desc string) {
	if i := strings.LastIndex(desc, " [died"); i > 0 {
		desc = desc[:i]
	}
	if i := strings.LastIndex(desc, " [hung"); i > 0 {
		desc = desc[:i]
	}
	if m := famRe.FindStringSubmatch(desc); m != nil {
		n, _ := strconv.Atoi(m[3])
		if prop == "C14" {
			ctxs, _ := c14CtxMap(5)
			expr, allowed, ok := c14Input(m[2], n, ctxs)
			if ok {
				c14Measure(m[1], expr, allowed)
			}
			return
		}
		expr, list := scaleInput(m[2], n)
		Val(append([]string{expr}, list...))
		Ext(expr)
		Sat(expr, list)
		return
	}
	Val([]string{desc})
	Ext(desc)
	Sat(desc, []string{"MIT"})
	Sat("MIT", []string{desc})
}

func init() {
	kinds["death"] = func(raw json.RawMessage) string {
		var cs struct {
			Desc string `json:"desc"`
			Prop string `json:"property"`
		}
		if err := json.Unmarshal(raw, &cs); err != nil {
			return "bad case"
		}
		prop := cs.Prop
		if prop == "" {
			prop = "C03"
			if strings.Contains(cs.Desc, " | family ") {
				prop = "C14"
			}
		}
		cmd := exec.Command(os.Args[0], "deathcase", prop, cs.Desc)
		cmd.Env = append(os.Environ(), "GOMAXPROCS=1", "GOTRACEBACK=single")
		done := make(chan error, 1)
		var out strings.Builder
		cmd.Stderr = &out
		if err := cmd.Start(); err != nil {
			return "cannot start child: " + err.Error()
		}
		go func() { done <- cmd.Wait() }()
		select {
		case err := <-done:
			if err != nil {
				return fmt.Sprintf("the case still kills the process: %v: %s", err, first(out.String(), 200))
			}
			return ""
		case <-time.After(time.Duration(envInt("VERIF_WATCHDOG_S", 150)) * time.Second):
			cmd.Process.Kill()
			return "the case still hangs (killed after the watchdog period)"
		}
	}
}
