package main

import (
	"sort"
	"strings"
)

// Atom sets made of the different ways of writing ONE license, and of the versions of ONE family:
// code that keys, prunes or de-duplicates terms by something coarser than the term (the bare id, the
// version entry, the family) is only visible when such terms meet in one expression or one list.

// idVariants: x, x+, x-only, x-or-later, x WITH e, x+ WITH e, x WITH f - those that are valid terms.
func idVariants(x string) []string {
	var out []string
	for _, s := range []string{x, x + "+", x + "-only", x + "-or-later", x + " WITH Bison-exception-2.2", x + "+ WITH Bison-exception-2.2", x + " WITH Classpath-exception-2.0"} {
		if !NormTerm(s).Valid || Valid1(s) != 1 {
			continue
		}
		out = append(out, s)
	}
	return out
}

// variantIDs: one id of a GNU family (listed -only / -or-later forms), one of another range-table family,
// one that is in no family, one more GNU id with a minor version.
var variantIDs = []string{"GPL-2.0", "Apache-1.1", "MIT", "LGPL-2.1"}

// familyAtoms: the first id of the first, second and last version step of a family.
func familyAtoms(f *Family) []string {
	var out []string
	add := func(i int) {
		if i < 0 || i >= len(f.Steps) || len(f.Steps[i]) == 0 {
			return
		}
		id := f.Steps[i][0]
		for _, x := range out {
			if x == id {
				return
			}
		}
		if Valid1(id) == 1 {
			out = append(out, id)
		}
	}
	add(0)
	add(1)
	add(len(f.Steps) - 1)
	return out
}

// Mirror swaps the operands of every operator (commutativity applied everywhere).
func (t *Tree) Mirror() *Tree {
	if t.Op == 0 {
		return t
	}
	return &Tree{Op: t.Op, L: t.R.Mirror(), R: t.L.Mirror(), n: t.n}
}

// Rotations: the regroupings of the root with a child that carries the same operator (associativity).
func (t *Tree) Rotations() []*Tree {
	var out []*Tree
	if t.Op == 0 {
		return nil
	}
	if t.L.Op == t.Op { // (A op B) op C -> A op (B op C)
		out = append(out, &Tree{Op: t.Op, L: t.L.L, R: &Tree{Op: t.Op, L: t.L.R, R: t.R, n: t.L.R.Leaves() + t.R.Leaves()}, n: t.n})
	}
	if t.R.Op == t.Op { // A op (B op C) -> (A op B) op C
		out = append(out, &Tree{Op: t.Op, L: &Tree{Op: t.Op, L: t.L, R: t.R.L, n: t.L.Leaves() + t.R.L.Leaves()}, R: t.R.R, n: t.n})
	}
	return out
}

// nameRelatives: for a listed id d, the range-table ids whose text is a proper prefix of d up to a '-'
// ("GPL-2.0" for "GPL-2.0-with-GCC-exception" and for "GPL-2.0-only"), together with the other ids of
// their version step. These are the ids a name-based shortcut would relate d to.
func nameRelatives(d string) []string {
	ld := strings.ToLower(d)
	var out []string
	seen := map[string]bool{}
	for _, fam := range T().Ranges {
		for _, step := range fam {
			hit := false
			for _, m := range step {
				if strings.HasPrefix(ld, strings.ToLower(m)+"-") {
					hit = true
				}
			}
			if !hit {
				continue
			}
			for _, m := range step {
				if !seen[m] && !strings.EqualFold(m, d) && !strings.HasSuffix(m, "+") {
					seen[m] = true
					out = append(out, m)
				}
			}
		}
	}
	return out
}

// idNeighbours: the listed license ids a comparison shortcut could confuse with a: its predecessor and
// successor in case-insensitive order of all listed ids, and every listed id whose text is a proper prefix
// of a up to a '-' (MIT for MIT-0, ISC for ISC-Veillard, GPL-2.0 for GPL-2.0-only).
var sortedIDsCache []string

func idNeighbours(a string) []string {
	if sortedIDsCache == nil {
		sortedIDsCache = append([]string{}, T().AllLicenseIDs()...)
		sort.Slice(sortedIDsCache, func(i, j int) bool {
			return strings.ToLower(sortedIDsCache[i]) < strings.ToLower(sortedIDsCache[j])
		})
	}
	ids := sortedIDsCache
	la := strings.ToLower(a)
	seen := map[string]bool{a: true}
	var out []string
	add := func(b string) {
		if !seen[b] && !strings.HasSuffix(b, "+") {
			seen[b] = true
			out = append(out, b)
		}
	}
	i := sort.Search(len(ids), func(i int) bool { return strings.ToLower(ids[i]) >= la })
	if i > 0 {
		add(ids[i-1])
	}
	if i+1 < len(ids) {
		add(ids[i+1])
	}
	for _, b := range ids {
		if strings.HasPrefix(la, strings.ToLower(b)+"-") {
			add(b)
		}
	}
	return out
}

// inBetweenIDs: listed ids outside family f that sort (case-insensitively) between the first and the last
// of f's table ids - entries that end up between two versions of f when an allowed list is sorted.
func inBetweenIDs(f *Family, max int) []string {
	member := map[string]bool{}
	lo, hi := "", ""
	for _, st := range f.Steps {
		for _, id := range st {
			l := strings.ToLower(id)
			member[l] = true
			if lo == "" || l < lo {
				lo = l
			}
			if l > hi {
				hi = l
			}
		}
	}
	idNeighbours("MIT") // fills sortedIDsCache
	var out []string
	for _, id := range sortedIDsCache {
		l := strings.ToLower(id)
		if l > lo && l < hi && !member[l] && !strings.HasSuffix(id, "+") {
			if _, inTable := tablePos()[id]; !inTable {
				out = append(out, id)
			}
		}
	}
	if len(out) > max {
		out = append(append([]string{}, out[:max/2]...), out[len(out)-(max-max/2):]...)
	}
	return out
}
