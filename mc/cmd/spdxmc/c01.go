package main

// C01 — Satisfies = Boolean truth of the expression under the allowed list.
// Explorer E1: every tree shape x operator labelling x leaf labelling x allowed subset; the truth of
// a leaf is the implementation's own single-term verdict, the tree is known by construction,
// R-bool evaluates it.

import (
	"encoding/json"
	"fmt"
	"strings"
)

func encTree(t *Tree) string {
	if t.Op == 0 {
		return fmt.Sprint(t.Atom)
	}
	return "(" + string(t.Op) + " " + encTree(t.L) + " " + encTree(t.R) + ")"
}

func decTree(s string) (*Tree, error) {
	pos := 0
	var rec func() (*Tree, error)
	rec = func() (*Tree, error) {
		for pos < len(s) && s[pos] == ' ' {
			pos++
		}
		if pos >= len(s) {
			return nil, fmt.Errorf("unexpected end")
		}
		if s[pos] == '(' {
			pos++
			op := s[pos]
			pos++
			l, err := rec()
			if err != nil {
				return nil, err
			}
			r, err := rec()
			if err != nil {
				return nil, err
			}
			for pos < len(s) && s[pos] == ' ' {
				pos++
			}
			if pos >= len(s) || s[pos] != ')' {
				return nil, fmt.Errorf("expected )")
			}
			pos++
			return &Tree{Op: op, L: l, R: r, n: l.Leaves() + r.Leaves()}, nil
		}
		n := 0
		st := pos
		for pos < len(s) && s[pos] >= '0' && s[pos] <= '9' {
			n = n*10 + int(s[pos]-'0')
			pos++
		}
		if st == pos {
			return nil, fmt.Errorf("expected atom index at %d", pos)
		}
		return &Tree{Atom: n, n: 1}, nil
	}
	return rec()
}

type c01Case struct {
	Expr    string   `json:"expr"`
	Allowed []string `json:"allowed"`
	Atoms   []string `json:"atoms"`
	Tree    string   `json:"tree"`
	Formula string   `json:"formula"`
}

// c01Check: returns "" if Satisfies(expr, allowed) equals R-bool of the tree under the
// assignment derived from single-term Satisfies calls. skip is set when a call panicked or erred.
func c01Check(t *Tree, atoms []string, expr string, allowed []string, single func(a int, b string) (bool, bool)) (msg string, skip string, truth uint32, want bool) {
	for a := range atoms {
		if t.AtomSet()&(1<<uint(a)) == 0 {
			continue
		}
		for _, b := range allowed {
			ok, valid := single(a, b)
			if !valid {
				return "", "single-term call failed", 0, false
			}
			if ok {
				truth |= 1 << uint(a)
				break
			}
		}
	}
	want = t.Eval(truth)
	r := Sat(expr, allowed)
	if r.Panic != "" {
		return "", "panic", truth, want
	}
	if r.IsErr {
		return fmt.Sprintf("Satisfies(%q, %q) returned error %q for a valid expression and valid list", expr, allowed, r.Err), "", truth, want
	}
	if r.Ok != want {
		return fmt.Sprintf("Satisfies(%q, %q) = %v but the formula is %v under the single-term verdicts (true terms: %s)", expr, allowed, r.Ok, want, trueAtoms(atoms, truth)), "", truth, want
	}
	return "", "", truth, want
}

func trueAtoms(atoms []string, truth uint32) string {
	var l []string
	for i, a := range atoms {
		if truth&(1<<uint(i)) != 0 {
			l = append(l, a)
		}
	}
	return "[" + strings.Join(l, ", ") + "]"
}

func directSingle(atoms []string) func(a int, b string) (bool, bool) {
	cache := map[string][2]bool{}
	return func(a int, b string) (bool, bool) {
		k := atoms[a] + "\x00" + b
		if v, ok := cache[k]; ok {
			return v[0], v[1]
		}
		r := Sat(atoms[a], []string{b})
		v := [2]bool{r.Ok, r.Panic == "" && !r.IsErr}
		cache[k] = v
		return v[0], v[1]
	}
}

var c01Atoms4 = []string{"MIT", "ISC", "LicenseRef-a", "DocumentRef-d:LicenseRef-a"}
var c01Atoms3 = []string{"MIT", "LicenseRef-a", "ISC"}
var c01Atoms2 = []string{"MIT", "LicenseRef-a"}

var c01Rich = []string{
	"GPL-2.0", "GPL-2.0+", "GPL-3.0-only", "GPL-2.0-or-later WITH Bison-exception-2.2", "GPL-2.0 WITH Bison-exception-2.2",
	"Apache-2.0-or-later", "Apache-1.1", "mit", "MIT-only", "LicenseRef-a", "DocumentRef-d:LicenseRef-a", "LGPL-2.1-only", "LicenseRef-A", "LicenseRef-MIT", "Apache-1.1+",
}

var c01Entries = []string{
	"GPL-1.0+", "GPL-3.0", "GPL-2.0-only", "Apache-2.0", "MIT", "LicenseRef-a", "Zlib", " mit ", "(MIT)",
	"GPL-2.0-or-later WITH Bison-exception-2.2", "DocumentRef-d:LicenseRef-a", "LGPL-2.1+", "Apache-1.0+", "GPL-3.0-or-later WITH Bison-exception-2.2", "LicenseRef-A", "LicenseRef-MIT",
}

func init() {
	kinds["c01.tree"] = func(raw json.RawMessage) string {
		var cs c01Case
		if err := json.Unmarshal(raw, &cs); err != nil {
			return "bad case: " + err.Error()
		}
		t, err := decTree(cs.Tree)
		if err != nil {
			return "bad tree: " + err.Error()
		}
		msg, _, _, _ := c01Check(t, cs.Atoms, cs.Expr, cs.Allowed, directSingle(cs.Atoms))
		return msg
	}
	register(&PropDef{
		ID:       "C01",
		Title:    "Satisfies = Boolean truth of the expression under the allowed list",
		Explorer: "E1 bounded-exhaustive tree x labelling x allowed-list enumeration vs R-bool over the implementation's single-term verdicts",
		Rule: "S1: every binary tree with <= N leaves, every AND/OR labelling, every leaf labelling over 4 atoms (2 licences, 2 references), rendered fully parenthesised, with minimal parentheses and with flat right chains / parenthesised left groups, x every non-empty subset of the atoms as allowed list; " +
			"S3: every shape and AND/OR labelling with all-distinct leaves up to 7 (thorough 8) leaves x {all, all-but-one, single} allowed lists; S5: every tree <= 3 leaves over the 5-7 ways of writing one license (x, x+, x-only, x-or-later, x WITH e, x+ WITH e, x WITH f; 4 licenses) x lists over the same terms; S6: for every family of the version table, every tree <= 2 (thorough 3) leaves over its first, second and last version x lists of <= 2 entries over those ids with and without '+', MIT+ and up to 2 ids that sort between the family's versions; S7: every id t of the version table as a one-term expression against [t, a], [a, t], [t, a+], [a+, t] for every other table id a; S2: every tree <= 3 leaves over 15 rich terms (+, -only, -or-later, WITH, refs, case) x every allowed list up to a length bound over 16 overlapping entries (with repetition, re-spellings); " +
			"state = (expression text, allowed list), transition = one Satisfies call; non-trivial = the tree mentions >= 2 distinct terms and the truth assignment restricted to them is neither all-false nor all-true",
		Assumptions: []string{
			"truth of a leaf = exists allowed entry b with Satisfies(term,[b]) (the implementation's own single-term verdict, as the property states); the matching relation itself is C02's subject",
			"the tree is known by construction (no reference parser); R-bool is 10 lines",
		},
		Run: c01Run,
	})
}

func c01Report(c *Ctx, t *Tree, atoms []string, expr string, allowed []string, msg string) {
	dir := "false-negative"
	if strings.Contains(msg, "= true but") {
		dir = "false-positive"
	} else if strings.Contains(msg, "returned error") {
		dir = "error-on-valid"
	}
	key := expr + " | " + strings.Join(allowed, ",")
	c.Report(Violation{Kind: "c01.tree", Class: fmt.Sprintf("%s/leaves%d", dir, t.Leaves()), Key: key, Msg: msg, Size: len(expr)*4 + len(allowed),
		Case:   mustJSON(c01Case{Expr: expr, Allowed: allowed, Atoms: atoms, Tree: encTree(t), Formula: t.SExpr(atoms)}),
		GoTest: fmt.Sprintf("ok, err := spdxexp.Satisfies(%q, %#v)", expr, allowed)})
}

func c01Run(c *Ctx) {
	thorough := c.Thorough()
	// ---- S1
	type s1 struct {
		atoms []string
		maxN  int
		fromN int
	}
	// wide and shallow, then narrow and deep (an aliasing defect of the old expansion needed >= 5 leaves)
	sweeps := []s1{{c01Atoms4, 4, 1}, {c01Atoms2, 6, 5}}
	if thorough {
		sweeps = []s1{{c01Atoms4, 5, 1}, {c01Atoms3, 6, 6}, {c01Atoms2, 7, 7}}
	}
	var bnd []map[string]any
	var ti int64
	for _, sw := range sweeps {
		bnd = append(bnd, map[string]any{"atoms": sw.atoms, "max_leaves": sw.maxN, "from_leaves": sw.fromN, "allowed": "every non-empty subset of the atoms"})
		atoms := sw.atoms
		single := directSingle(atoms)
		trees := TreesUpTo(sw.maxN, len(atoms))
		nsub := uint32(1)<<uint(len(atoms)) - 1
		subsets := make([][]string, nsub+1)
		for m := uint32(1); m <= nsub; m++ {
			for i, a := range atoms {
				if m&(1<<uint(i)) != 0 {
					subsets[m] = append(subsets[m], a)
				}
			}
		}
		for n := sw.fromN; n <= sw.maxN; n++ {
			for _, t := range trees[n] {
				ti++
				if !c.Mine(ti) {
					continue
				}
				if c.Expired() {
					return
				}
				c.Inc("trees")
				full, min := t.RenderFull(atoms, true), t.RenderMin(atoms)
				texts := []string{full}
				if min != full {
					texts = append(texts, min)
				}
				if as := t.RenderAssoc(atoms); as != full && as != min {
					texts = append(texts, as)
				}
				as := t.AtomSet()
				for _, expr := range texts {
					if !c.Begin(expr) {
						continue
					}
					for m := uint32(1); m <= nsub; m++ {
						msg, skip, truth, want := c01Check(t, atoms, expr, subsets[m], single)
						c.Inc("states")
						c.Inc("transitions")
						c.Inc("evaluations")
						if skip != "" {
							c.Inc("skipped_" + strings.ReplaceAll(skip, " ", "_"))
							c.Outcome("skipped")
							continue
						}
						c.Inc("traces")
						if popcount(as) >= 2 && truth&as != 0 && truth&as != as {
							c.Inc("nontrivial")
						}
						if want {
							c.Outcome("satisfied")
						} else {
							c.Outcome("unsatisfied")
						}
						if msg != "" {
							c01Report(c, t, atoms, expr, subsets[m], msg)
						}
					}
				}
				c.Sample(func() any {
					return map[string]any{"expr": min, "full": full, "allowed_lists": "all 15 subsets of atoms"}
				})
			}
		}
	}
	c.Bound("S1", bnd)

	// ---- S3: every shape and operator labelling with ALL-DISTINCT leaves, deeper than S1; allowed
	// lists: everything, everything but one term, each single term (2n+1 truth assignments)
	maxShape := 7
	if thorough {
		maxShape = 8
	}
	c.Bound("S3", map[string]any{"max_leaves": maxShape, "leaves": "all distinct, drawn in order from " + strings.Join(distinctAtoms, ","), "allowed": "all, all-but-one, singletons", "renderings": 3})
	shapes := ShapesUpTo(maxShape)
	s3single := directSingle(distinctAtoms)
	for n := 3; n <= maxShape; n++ {
		atoms := distinctAtoms[:n]
		var lists [][]string
		lists = append(lists, append([]string{}, atoms...))
		for i := range atoms {
			var l []string
			for j, a := range atoms {
				if j != i {
					l = append(l, a)
				}
			}
			lists = append(lists, l, []string{atoms[i]})
		}
		for _, t := range shapes[n] {
			ti++
			if !c.Mine(ti) {
				continue
			}
			if c.Expired() {
				return
			}
			c.Inc("trees")
			texts := []string{t.RenderFull(distinctAtoms, true)}
			for _, x := range []string{t.RenderMin(distinctAtoms), t.RenderAssoc(distinctAtoms)} {
				dup := false
				for _, y := range texts {
					if x == y {
						dup = true
					}
				}
				if !dup {
					texts = append(texts, x)
				}
			}
			for _, expr := range texts {
				if !c.Begin(expr) {
					continue
				}
				for _, l := range lists {
					msg, skip, truth, want := c01Check(t, distinctAtoms, expr, l, s3single)
					c.Inc("states")
					c.Inc("transitions")
					c.Inc("evaluations")
					if skip != "" {
						c.Inc("skipped_" + strings.ReplaceAll(skip, " ", "_"))
						c.Outcome("skipped")
						continue
					}
					c.Inc("traces")
					if truth != 0 && len(l) < n {
						c.Inc("nontrivial")
					}
					if want {
						c.Outcome("satisfied")
					} else {
						c.Outcome("unsatisfied")
					}
					if msg != "" {
						c01Report(c, t, distinctAtoms, expr, l, msg)
					}
				}
			}
			c.Sample(func() any {
				return map[string]any{"expr": texts[len(texts)-1], "allowed_lists": "all / all-but-one / singletons"}
			})
		}
	}

	// ---- S4: long expressions (chains, balanced trees, nests) of up to 129 (thorough 1025) leaves
	sizes := append([]int{}, longSizes...)
	if thorough {
		sizes = append(sizes, longSizesThorough...)
	}
	const k4 = 6
	atoms4 := distinctAtoms[:k4]
	var lists4 [][]string
	lists4 = append(lists4, append([]string{}, atoms4...))
	for i := range atoms4 {
		var l []string
		for j, a := range atoms4 {
			if j != i {
				l = append(l, a)
			}
		}
		lists4 = append(lists4, l, []string{atoms4[i]})
	}
	c.Bound("S4", map[string]any{"sizes": sizes, "atoms": atoms4, "families": "right/left chains and balanced trees of AND / OR, alternating right and left nests", "allowed": "all, all-but-one, singletons", "renderings": 3})
	s4single := directSingle(atoms4)
	for _, n := range sizes {
		lt := LongTrees(n, k4)
		var names []string
		for name := range lt {
			names = append(names, name)
		}
		sortStrings(names)
		for _, name := range names {
			ti++
			if !c.Mine(ti) {
				continue
			}
			if c.Expired() {
				return
			}
			t := lt[name]
			texts := []string{t.RenderFull(atoms4, true)}
			for _, x := range []string{t.RenderMin(atoms4), t.RenderAssoc(atoms4)} {
				dup := false
				for _, y := range texts {
					if x == y {
						dup = true
					}
				}
				if !dup {
					texts = append(texts, x)
				}
			}
			c.Inc("trees")
			for _, expr := range texts {
				if !c.Begin(fmt.Sprintf("long %s n=%d", name, n)) {
					continue
				}
				for _, l := range lists4 {
					msg, skip, truth, want := c01Check(t, atoms4, expr, l, s4single)
					c.Inc("states")
					c.Inc("transitions")
					c.Inc("evaluations")
					if skip != "" {
						c.Inc("skipped_" + strings.ReplaceAll(skip, " ", "_"))
						continue
					}
					c.Inc("traces")
					if truth != 0 && len(l) < k4 {
						c.Inc("nontrivial")
					}
					if want {
						c.Outcome("satisfied")
					} else {
						c.Outcome("unsatisfied")
					}
					if msg != "" {
						c.Report(Violation{Kind: "c01.tree", Class: "long:" + name, Key: fmt.Sprintf("long:%s:n=%d:%s", name, n, strings.Join(l, ",")), Msg: fmt.Sprintf("%s with %d leaves: %s", name, n, first(msg, 400)), Size: 1000 + n,
							Case: mustJSON(c01Case{Expr: expr, Allowed: l, Atoms: atoms4, Tree: encTree(t), Formula: name})})
					}
				}
			}
		}
	}

	// ---- S2 / S5 / S6: rich terms against lists with repetition
	type plan struct{ leaves, listLen int }
	sweep := func(atoms, entries []string, plans []plan) bool {
		single := directSingle(atoms)
		maxLeaves := 0
		for _, pl := range plans {
			if pl.leaves > maxLeaves {
				maxLeaves = pl.leaves
			}
		}
		trees := TreesUpTo(maxLeaves, len(atoms))
		for _, pl := range plans {
			var lists [][]string
			for l := 1; l <= pl.listLen; l++ {
				var li int64
				forSeqs(len(entries), l, &li, func(_ int64, s []int) bool {
					x := make([]string, l)
					for k, e := range s {
						x[k] = entries[e]
					}
					lists = append(lists, x)
					return true
				})
			}
			for _, t := range trees[pl.leaves] {
				ti++
				if !c.Mine(ti) {
					continue
				}
				if c.Expired() {
					return false
				}
				c.Inc("trees")
				full, min := t.RenderFull(atoms, true), t.RenderMin(atoms)
				texts := []string{full}
				if min != full {
					texts = append(texts, min)
				}
				if x := t.RenderAssoc(atoms); x != full && x != min {
					texts = append(texts, x)
				}
				as := t.AtomSet()
				for _, expr := range texts {
					if !c.Begin(expr) {
						continue
					}
					for _, l := range lists {
						msg, skip, truth, want := c01Check(t, atoms, expr, l, single)
						c.Inc("states")
						c.Inc("transitions")
						c.Inc("evaluations")
						if skip != "" {
							c.Inc("skipped_" + strings.ReplaceAll(skip, " ", "_"))
							c.Outcome("skipped")
							continue
						}
						c.Inc("traces")
						if popcount(as) >= 2 && truth&as != 0 && truth&as != as {
							c.Inc("nontrivial")
						}
						if want {
							c.Outcome("satisfied")
						} else {
							c.Outcome("unsatisfied")
						}
						if msg != "" {
							c01Report(c, t, atoms, expr, l, msg)
						}
					}
				}
				c.Sample(func() any {
					return map[string]any{"expr": min, "allowed_lists": fmt.Sprintf("all %d lists of length <= %d over %d entries", len(lists), pl.listLen, len(entries))}
				})
			}
		}
		return true
	}
	plans := []plan{{1, 3}, {2, 2}, {3, 1}}
	if thorough {
		plans = []plan{{1, 4}, {2, 3}, {3, 2}}
	}
	c.Bound("S2", map[string]any{"terms": c01Rich, "entries": c01Entries, "plans(leaves,max_list_len)": plans})
	if !sweep(c01Rich, c01Entries, plans) {
		return
	}
	// ---- S5: every way of writing ONE license, as terms and as entries
	p5 := []plan{{1, 2}, {2, 2}, {3, 1}}
	if thorough {
		p5 = []plan{{1, 3}, {2, 2}, {3, 2}}
	}
	var s5 []map[string]any
	for _, x := range variantIDs {
		v := idVariants(x)
		s5 = append(s5, map[string]any{"license": x, "terms_and_entries": v})
		if !sweep(v, v, p5) {
			return
		}
	}
	c.Bound("S5", map[string]any{"sets": s5, "plans(leaves,max_list_len)": p5})
	// ---- S6: every family of the version table: its first, second and last version as terms, the same
	// ids with and without '+' as entries (one entry may cover several required terms)
	p6 := []plan{{1, 2}, {2, 2}}
	if thorough {
		p6 = []plan{{1, 2}, {2, 2}, {3, 2}}
	}
	nf := 0
	for _, f := range Families() {
		atoms := familyAtoms(f)
		if len(atoms) < 2 {
			continue
		}
		nf++
		entries := append([]string{}, atoms...)
		for _, a := range atoms {
			if NormTerm(a+"+").Valid && Valid1(a+"+") == 1 {
				entries = append(entries, a+"+")
			}
		}
		// entries that are no version of the family: a '+' entry outside every family, and ids that sort
		// between the family's versions (they sit between its entries once the list is sorted)
		entries = append(entries, "MIT+")
		entries = append(entries, inBetweenIDs(f, 2)...)
		if !sweep(atoms, entries, p6) {
			return
		}
	}
	// ---- S7: one-term expressions over every id of the version table against every two-entry list made of
	// that id and one other table id, plain or '+', in both orders (entries of different families that some
	// private numbering of table positions conflates meet here)
	{
		pos := tablePos()
		var table []string
		for _, fam := range T().Ranges {
			for _, st := range fam {
				for _, id := range st {
					if p := pos[id]; p.Count == 1 && !strings.HasSuffix(id, "+") && Valid1(id) == 1 {
						table = append(table, id)
					}
				}
			}
		}
		c.Bound("S7", map[string]any{"table_ids": len(table), "lists": "[t, a], [a, t], [t, a+], [a+, t] for every other table id a"})
		leaf := &Tree{Atom: 0, n: 1}
		for _, t := range table {
			ti++
			if !c.Mine(ti) {
				continue
			}
			if c.Expired() {
				return
			}
			if !c.Begin("S7 " + t) {
				continue
			}
			atoms := []string{t}
			single := directSingle(atoms)
			for _, a := range table {
				if a == t {
					continue
				}
				for _, e := range []string{a, a + "+"} {
					if e != a && Valid1(e) != 1 {
						continue
					}
					for _, l := range [][]string{{t, e}, {e, t}} {
						msg, skip, _, want := c01Check(leaf, atoms, t, l, single)
						c.Inc("states")
						c.Inc("transitions")
						c.Inc("evaluations")
						if skip != "" {
							c.Inc("skipped_" + strings.ReplaceAll(skip, " ", "_"))
							continue
						}
						c.Inc("traces")
						if want {
							c.Outcome("satisfied")
						} else {
							c.Outcome("unsatisfied")
						}
						if msg != "" {
							c01Report(c, leaf, atoms, t, l, msg)
						}
					}
				}
			}
		}
	}
	c.Bound("S6", map[string]any{"families": nf, "terms": "first id of the first, second and last version step", "entries": "those ids, plain and with '+', MIT+, and up to 2 ids outside every family that sort between the family's versions", "plans(leaves,max_list_len)": p6})
}

func popcount(x uint32) int {
	n := 0
	for x != 0 {
		x &= x - 1
		n++
	}
	return n
}
