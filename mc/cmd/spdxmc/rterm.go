package main

// R-term: normaliser and matcher for single terms (the rule of C02, transcribed), and
// R-ver: natural version order and family membership (C11).

import (
	"regexp"
	"sort"
	"strings"
)

type NT struct {
	Valid  bool
	Ref    bool
	HasDoc bool
	Doc    string
	LRef   string
	ID     string // list casing; -or-later dropped (counted as Plus); -only dropped when the suffixed id is not listed
	Plus   bool
	Exc    string // list casing, "" = none
}

var idRe = regexp.MustCompile(`^[A-Za-z0-9.-]+$`)

// NormTerm normalises the text of a single term (no surrounding spaces or parentheses).
func NormTerm(text string) NT {
	t := T()
	var n NT
	lic := text
	if i := strings.Index(text, " WITH "); i >= 0 {
		lic = text[:i]
		e, ok := t.IsExc(text[i+6:])
		if !ok {
			return n
		}
		n.Exc = e
	}
	if strings.HasPrefix(lic, "DocumentRef-") || strings.HasPrefix(lic, "LicenseRef-") {
		if n.Exc != "" {
			return NT{}
		}
		rest := lic
		if strings.HasPrefix(rest, "DocumentRef-") {
			i := strings.Index(rest, ":")
			if i < 0 {
				return NT{}
			}
			n.HasDoc, n.Doc = true, rest[len("DocumentRef-"):i]
			rest = rest[i+1:]
			if !idRe.MatchString(n.Doc) {
				return NT{}
			}
		}
		if !strings.HasPrefix(rest, "LicenseRef-") {
			return NT{}
		}
		n.LRef = rest[len("LicenseRef-"):]
		if !idRe.MatchString(n.LRef) {
			return NT{}
		}
		n.Ref, n.Valid = true, true
		return n
	}
	base := lic
	// the deprecated list contains ids that end in '+' (GPL-2.0+): such a listed id means id with plus
	if strings.HasSuffix(base, "+") {
		n.Plus = true
		base = base[:len(base)-1]
		if strings.HasSuffix(base, "+") {
			// only derivable when base (with one '+') is itself a listed id
			if !t.IsLicense(base) {
				return NT{}
			}
			base = base[:len(base)-1]
		}
	}
	listed := func(s string) (string, bool) {
		if x, ok := t.IsActive(s); ok {
			return x, true
		}
		return t.IsDepr(s)
	}
	if x, ok := listed(base); ok {
		n.ID = x
	} else if strings.HasSuffix(base, "-only") {
		x, ok := t.IsActive(base[:len(base)-5])
		if !ok {
			return NT{}
		}
		n.ID = x
	} else if strings.HasSuffix(base, "-or-later") {
		x, ok := t.IsActive(base[:len(base)-9])
		if !ok {
			return NT{}
		}
		n.ID = x
		n.Plus = true
	} else {
		return NT{}
	}
	if strings.HasSuffix(n.ID, "-or-later") {
		n.ID = n.ID[:len(n.ID)-9]
		n.Plus = true
	}
	n.Valid = true
	return n
}

// ---------------------------------------------------------------- family positions from the table

type Pos struct {
	Fam, Ver int
	Count    int // number of positions the id occupies in the whole table
}

var posCache map[string]Pos

func tablePos() map[string]Pos {
	if posCache != nil {
		return posCache
	}
	m := map[string]Pos{}
	for i, fam := range T().Ranges {
		for j, ver := range fam {
			for _, id := range ver {
				p, ok := m[id]
				if !ok {
					m[id] = Pos{Fam: i, Ver: j, Count: 1}
				} else {
					p.Count++
					m[id] = p
				}
			}
		}
	}
	posCache = m
	return m
}

// MatchTerms is the rule of C02. ambiguous is set when an id involved sits at several table positions.
func MatchTerms(a, b NT) (match bool, ambiguous bool) {
	if !a.Valid || !b.Valid {
		return false, false
	}
	if a.Ref != b.Ref {
		return false, false
	}
	if a.Ref {
		return a.LRef == b.LRef && a.HasDoc == b.HasDoc && a.Doc == b.Doc, false
	}
	if a.Exc != b.Exc {
		return false, false
	}
	if a.ID == b.ID {
		return true, false
	}
	pos := tablePos()
	pa, oka := pos[a.ID]
	pb, okb := pos[b.ID]
	if (oka && pa.Count > 1) || (okb && pb.Count > 1) {
		return false, true
	}
	if !oka || !okb || pa.Fam != pb.Fam {
		return false, false
	}
	switch {
	case a.Plus && b.Plus:
		return true, false
	case a.Plus:
		return pb.Ver >= pa.Ver, false
	case b.Plus:
		return pa.Ver >= pb.Ver, false
	default:
		return pa.Ver == pb.Ver, false
	}
}

// ---------------------------------------------------------------- R-ver

func stripSuffix(id string) string {
	if strings.HasSuffix(id, "-only") {
		return id[:len(id)-5]
	}
	if strings.HasSuffix(id, "-or-later") {
		return id[:len(id)-9]
	}
	return id
}

var genericVer = regexp.MustCompile(`^[0-9]+(\.[0-9]+)*[a-z]?$`)
var digitRun = regexp.MustCompile(`[0-9]+`)

func verShape(rem string) string { return digitRun.ReplaceAllString(rem, "N") }

// verRuns splits into digit runs and text runs.
func verRuns(s string) []string {
	var out []string
	i := 0
	for i < len(s) {
		j := i
		isD := s[i] >= '0' && s[i] <= '9'
		for j < len(s) && (s[j] >= '0' && s[j] <= '9') == isD {
			j++
		}
		out = append(out, s[i:j])
		i = j
	}
	return out
}

// cmpVer compares two version remainders run-wise (numbers numerically).
func cmpVer(a, b string) int {
	ra, rb := verRuns(a), verRuns(b)
	for i := 0; i < len(ra) && i < len(rb); i++ {
		x, y := ra[i], rb[i]
		dx := x[0] >= '0' && x[0] <= '9'
		dy := y[0] >= '0' && y[0] <= '9'
		if dx && dy {
			x, y = strings.TrimLeft(x, "0"), strings.TrimLeft(y, "0")
			// "02" vs "2": keep the longer-original as larger only if numerically equal is impossible
			// to order; compare numerically first
			if len(x) != len(y) {
				if len(x) < len(y) {
					return -1
				}
				return 1
			}
			if x != y {
				if x < y {
					return -1
				}
				return 1
			}
			// numerically equal: more leading zeros = finer subdivision ("1.02" > "1.0"? no: 02 = 2 > 0)
			if len(ra[i]) != len(rb[i]) {
				if len(ra[i]) < len(rb[i]) {
					return -1
				}
				return 1
			}
			continue
		}
		if x != y {
			if x < y {
				return -1
			}
			return 1
		}
	}
	switch {
	case len(ra) < len(rb):
		return -1
	case len(ra) > len(rb):
		return 1
	}
	return 0
}

type Family struct {
	Index    int
	Base     string
	Steps    [][]string
	Shadowed bool     // shares an id with an earlier family: unreachable through first-position lookup
	Shapes   []string // version shapes present in the table for this family
	Members  []string // listed ids (active+deprecated) that are versions of this family by R-ver, sorted by version
}

func (f *Family) rem(id string) string { return stripSuffix(id)[len(f.Base):] }

func (f *Family) IsMember(id string) bool {
	s := stripSuffix(id)
	if !strings.HasPrefix(s, f.Base) {
		return false
	}
	r := s[len(f.Base):]
	if genericVer.MatchString(r) {
		return true
	}
	sh := verShape(r)
	for _, x := range f.Shapes {
		if x == sh {
			return true
		}
	}
	return false
}

var famCache []*Family

func Families() []*Family {
	if famCache != nil {
		return famCache
	}
	t := T()
	seen := map[string]int{}
	for i, fam := range t.Ranges {
		f := &Family{Index: i, Steps: fam}
		var all []string
		for _, st := range fam {
			for _, id := range st {
				if strings.HasSuffix(id, "-or-later") {
					continue
				}
				all = append(all, stripSuffix(id))
				if j, ok := seen[id]; ok && j != i {
					f.Shadowed = true
				}
			}
		}
		for _, st := range fam {
			for _, id := range st {
				if _, ok := seen[id]; !ok {
					seen[id] = i
				}
			}
		}
		if len(all) > 0 {
			p := all[0]
			for _, s := range all[1:] {
				k := 0
				for k < len(p) && k < len(s) && p[k] == s[k] {
					k++
				}
				p = p[:k]
			}
			if k := strings.LastIndex(p, "-"); k >= 0 {
				p = p[:k+1]
			} else {
				p = ""
			}
			f.Base = p
		}
		shapes := map[string]bool{}
		if f.Base != "" {
			for _, s := range all {
				shapes[verShape(s[len(f.Base):])] = true
			}
		}
		for s := range shapes {
			f.Shapes = append(f.Shapes, s)
		}
		sort.Strings(f.Shapes)
		if f.Base != "" {
			for _, id := range t.AllLicenseIDs() {
				if strings.HasSuffix(id, "+") {
					continue // GPL-2.0+ style deprecated ids are spellings, not versions
				}
				if f.IsMember(id) {
					f.Members = append(f.Members, id)
				}
			}
			sort.SliceStable(f.Members, func(a, b int) bool {
				c := cmpVer(f.rem(f.Members[a]), f.rem(f.Members[b]))
				if c != 0 {
					return c < 0
				}
				return f.Members[a] < f.Members[b]
			})
		}
		famCache = append(famCache, f)
	}
	return famCache
}
