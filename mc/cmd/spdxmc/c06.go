package main

// C06 — ExtractLicenses returns exactly the distinct terms. Explorer E1, compositional:
// (a) set(Extract(e)) = union of Extract(leaf), (b) no duplicates, (c) single-term canonical form
// and round trips for every listed id in every spelling, (d) Satisfies(e, Extract(e)).

import (
	"encoding/json"
	"fmt"
	"sort"
	"strings"
)

type c06Case struct {
	Kind   string   `json:"kind"` // tree | term
	Expr   string   `json:"expr"`
	Leaves []string `json:"leaves,omitempty"`
}

func setOf(l []string) map[string]bool {
	m := map[string]bool{}
	for _, x := range l {
		m[x] = true
	}
	return m
}

func sortedKeys(m map[string]bool) []string {
	var l []string
	for k := range m {
		l = append(l, k)
	}
	sort.Strings(l)
	return l
}

// c06Tree checks (a), (b), (d) for an expression whose leaves are known by construction.
func c06Tree(expr string, leaves []string, leafExt func(string) (string, bool)) (msg string, skip bool) {
	e := Ext(expr)
	if e.Panic != "" {
		return "", true
	}
	if e.IsErr {
		return fmt.Sprintf("ExtractLicenses(%q) returned error %q for a valid expression", expr, e.Err), false
	}
	want := map[string]bool{}
	for _, l := range leaves {
		x, ok := leafExt(l)
		if !ok {
			return "", true
		}
		want[x] = true
	}
	got := setOf(e.List)
	if len(got) != len(e.List) {
		return fmt.Sprintf("ExtractLicenses(%q) = %q contains duplicates", expr, e.List), false
	}
	w, g := sortedKeys(want), sortedKeys(got)
	if strings.Join(w, "\x00") != strings.Join(g, "\x00") {
		return fmt.Sprintf("ExtractLicenses(%q) = %q but the terms of the expression are %q", expr, g, w), false
	}
	r := Sat(expr, e.List)
	if r.Panic != "" {
		return "", true
	}
	if r.IsErr || !r.Ok {
		return fmt.Sprintf("Satisfies(%q, ExtractLicenses(...)=%q) = %v err=%q; the extracted list must satisfy the expression", expr, e.List, r.Ok, r.Err), false
	}
	return "", false
}

// c06Term checks (c) for one single term.
func c06Term(term string) (msg string, skip bool) {
	n := NormTerm(term)
	e := Ext(term)
	if e.Panic != "" {
		return "", true
	}
	if e.IsErr {
		return fmt.Sprintf("ExtractLicenses(%q) error %q for a valid single term", term, e.Err), false
	}
	if len(e.List) != 1 {
		return fmt.Sprintf("ExtractLicenses(%q) = %q: expected exactly one element", term, e.List), false
	}
	x := e.List[0]
	if Valid1(x) != 1 {
		return fmt.Sprintf("ExtractLicenses(%q) = [%q], which is not itself a valid expression", term, x), false
	}
	e2 := Ext(x)
	if e2.Panic != "" {
		return "", true
	}
	if e2.IsErr || len(e2.List) != 1 || e2.List[0] != x {
		return fmt.Sprintf("ExtractLicenses(%q) = [%q] but ExtractLicenses(%q) = %q (not a fixed point)", term, x, x, e2.List), false
	}
	for _, alt := range []string{"(" + term + ")", " " + term + " ", "((" + term + "))"} {
		ea := Ext(alt)
		if ea.Panic != "" {
			return "", true
		}
		if ea.IsErr || len(ea.List) != 1 || ea.List[0] != x {
			return fmt.Sprintf("ExtractLicenses(%q) = [%q] but ExtractLicenses(%q) = %q: redundant parentheses / spaces change the extracted term", term, x, alt, ea.List), false
		}
	}
	a, b := Sat(term, []string{x}), Sat(x, []string{term})
	if a.Panic != "" || b.Panic != "" {
		return "", true
	}
	if !a.Ok || !b.Ok {
		return fmt.Sprintf("term %q and its extracted form %q do not satisfy each other (%v/%v)", term, x, a.Ok, b.Ok), false
	}
	if !n.Valid {
		return "", false
	}
	nx := NormTerm(x)
	if n.Ref {
		if x != term {
			return fmt.Sprintf("reference term %q extracted as %q (must be verbatim)", term, x), false
		}
		return "", false
	}
	if !nx.Valid || nx.ID != n.ID || nx.Plus != n.Plus || nx.Exc != n.Exc {
		return fmt.Sprintf("ExtractLicenses(%q) = [%q]: expected id %q plus=%v exception %q, got id %q plus=%v exception %q", term, x, n.ID, n.Plus, n.Exc, nx.ID, nx.Plus, nx.Exc), false
	}
	// spelled as in the list: the id part of x must be a listed id verbatim, the exception verbatim
	idPart := x
	if i := strings.Index(x, " WITH "); i >= 0 {
		idPart = x[:i]
		if x[i+6:] != n.Exc {
			return fmt.Sprintf("ExtractLicenses(%q) = [%q]: exception not in list casing %q", term, x, n.Exc), false
		}
	} else if n.Exc != "" {
		return fmt.Sprintf("ExtractLicenses(%q) = [%q] lost the exception", term, x), false
	}
	hasPlus := strings.HasSuffix(idPart, "+")
	idPart = strings.TrimSuffix(idPart, "+")
	t := T()
	if l, ok := t.IsActive(idPart); ok && l == idPart {
	} else if l, ok := t.IsDepr(idPart); ok && l == idPart {
	} else {
		return fmt.Sprintf("ExtractLicenses(%q) = [%q]: %q is not a listed id in list casing", term, x, idPart), false
	}
	if (hasPlus || strings.HasSuffix(idPart, "-or-later")) != n.Plus {
		return fmt.Sprintf("ExtractLicenses(%q) = [%q]: '+' must be kept iff the term has '+'/-or-later", term, x), false
	}
	return "", false
}

func init() {
	kinds["c06.case"] = func(raw json.RawMessage) string {
		var cs c06Case
		if err := json.Unmarshal(raw, &cs); err != nil {
			return "bad case"
		}
		if cs.Kind == "term" {
			msg, _ := c06Term(cs.Expr)
			return msg
		}
		msg, _ := c06Tree(cs.Expr, cs.Leaves, directLeafExt())
		return msg
	}
	register(&PropDef{
		ID:       "C06",
		Title:    "ExtractLicenses returns exactly the distinct terms of the expression",
		Explorer: "E1 bounded-exhaustive tree enumeration, compositional oracle over the implementation's own single-term extraction + single-term canonical-form checks over all ids",
		Rule: "trees (three renderings each): every shape and AND/OR labelling up to 8 (thorough 9) all-distinct leaves; the C01 spaces S1 (<= N leaves over 4 atoms, two renderings) and S2 (<= 3 leaves over 12 rich terms + case re-spellings) and S5 (<= 3 leaves over the 5-7 ways of writing one license: x, x+, x-only, x-or-later, x WITH e, x+ WITH e, x WITH f; 4 licenses): set(Extract(e)) = union Extract(leaf), no duplicates, Satisfies(e, Extract(e)); " +
			"terms: every listed id in every valid spelling (and with WITH) + reference terms: exactly one element, valid, fixed point, mutual satisfaction, list casing, '+' and exception kept; " +
			"state = expression or term; non-trivial = expressions with >= 2 distinct terms containing an OR (where expansion can lose terms) and all single-term checks with a suffix/+/WITH",
		Assumptions: []string{"the canonical spelling of a leaf is delegated to the single-term call, which is itself checked against R-term's normaliser for every listed id"},
		Run:         c06Run,
	})
}

func directLeafExt() func(string) (string, bool) {
	cache := map[string]string{}
	return func(l string) (string, bool) {
		if v, ok := cache[l]; ok {
			return v, v != "\x00"
		}
		e := Ext(l)
		if e.Panic != "" || e.IsErr || len(e.List) != 1 {
			cache[l] = "\x00"
			return "", false
		}
		cache[l] = e.List[0]
		return e.List[0], true
	}
}

// the C01 atoms plus a reference that differs from another one only in letter case
// ... and a reference whose name is a listed id in list casing
var c06Atoms5 = []string{"MIT", "ISC", "LicenseRef-a", "DocumentRef-d:LicenseRef-a", "LicenseRef-A", "LicenseRef-MIT"}

var c06Rich = append(append([]string{}, c01Rich...), "MIT", "Mit", "gpl-2.0+", "MIT+")

func c06Run(c *Ctx) {
	leafExt := directLeafExt()
	var ti int64
	treeCase := func(t *Tree, atoms []string) bool {
		ti++
		if !c.Mine(ti) {
			return true
		}
		if c.Expired() {
			return false
		}
		var leaves []string
		for i, a := range atoms {
			if t.AtomSet()&(1<<uint(i)) != 0 {
				leaves = append(leaves, a)
			}
		}
		full, min := t.RenderFull(atoms, true), t.RenderMin(atoms)
		texts := []string{full}
		if min != full {
			texts = append(texts, min)
		}
		if x := t.RenderAssoc(atoms); x != full && x != min {
			texts = append(texts, x)
		}
		for _, expr := range texts {
			if !c.Begin(expr) {
				continue
			}
			msg, skip := c06Tree(expr, leaves, leafExt)
			c.Inc("states")
			c.Add("transitions", 2)
			c.Inc("evaluations")
			if skip {
				c.Inc("skipped_panic_or_leaf")
				continue
			}
			c.Add("traces", 2)
			if len(leaves) >= 2 && t.HasOp('o') {
				c.Inc("nontrivial")
			}
			c.Outcome(fmt.Sprintf("tree:%d-distinct-terms", len(leaves)))
			if msg != "" {
				c.Report(Violation{Kind: "c06.case", Class: "tree:" + first(errShape(msg), 24), Key: expr, Msg: msg, Size: len(expr),
					Case: mustJSON(c06Case{Kind: "tree", Expr: expr, Leaves: leaves}), GoTest: fmt.Sprintf("spdxexp.ExtractLicenses(%q)", expr)})
			}
		}
		c.Sample(func() any { return map[string]any{"expr": min, "distinct_terms": leaves} })
		return true
	}
	N := 4
	if c.Thorough() {
		N = 5
	}
	c.Bound("S1", map[string]any{"atoms": c06Atoms5, "max_leaves": N})
	trees := TreesUpTo(N, len(c06Atoms5))
	for n := 1; n <= N; n++ {
		for _, t := range trees[n] {
			if !treeCase(t, c06Atoms5) {
				return
			}
		}
	}
	// narrow and deep: all trees with N+1 .. N+2 leaves over two atoms
	deep := TreesUpTo(N+2, len(c01Atoms2))
	c.Bound("S1-deep", map[string]any{"atoms": c01Atoms2, "leaves": []int{N + 1, N + 2}})
	for n := N + 1; n <= N+2; n++ {
		for _, t := range deep[n] {
			if !treeCase(t, c01Atoms2) {
				return
			}
		}
	}
	// every shape and operator labelling with all-distinct leaves: a lost leaf cannot hide behind a repeat
	maxShape := 8
	if c.Thorough() {
		maxShape = 9
	}
	c.Bound("S3", map[string]any{"max_leaves": maxShape, "leaves": "all distinct", "renderings": 3})
	shapes := ShapesUpTo(maxShape)
	for n := 2; n <= maxShape; n++ {
		for _, t := range shapes[n] {
			if !treeCase(t, distinctAtoms) {
				return
			}
		}
	}
	// long expressions: every leaf's term must come back, whatever the depth
	sizes := append([]int{}, longSizes...)
	if c.Thorough() {
		sizes = append(sizes, longSizesThorough...)
	}
	c.Bound("S4", map[string]any{"sizes": sizes, "atoms": distinctAtoms, "families": "chains, balanced trees, alternating nests"})
	for _, n := range sizes {
		lt := LongTrees(n, len(distinctAtoms))
		var names []string
		for name := range lt {
			names = append(names, name)
		}
		sortStrings(names)
		for _, name := range names {
			if !treeCase(lt[name], distinctAtoms) {
				return
			}
		}
	}
	c.Bound("S2", map[string]any{"terms": c06Rich, "max_leaves": 3})
	rich := TreesUpTo(3, len(c06Rich))
	for n := 1; n <= 3; n++ {
		for _, t := range rich[n] {
			if !treeCase(t, c06Rich) {
				return
			}
		}
	}
	// every way of writing ONE license in one expression (x next to x+, x WITH e, x-only ...)
	var s5 []map[string]any
	for _, x := range variantIDs {
		v := idVariants(x)
		s5 = append(s5, map[string]any{"license": x, "terms": v})
		vt := TreesUpTo(3, len(v))
		for n := 1; n <= 3; n++ {
			for _, t := range vt[n] {
				if !treeCase(t, v) {
					return
				}
			}
		}
	}
	c.Bound("S5", map[string]any{"sets": s5, "max_leaves": 3})
	// single terms: every listed id in every spelling, with and without exception; references
	var terms []string
	for _, id := range T().AllLicenseIDs() {
		for _, s := range spellings(id) {
			terms = append(terms, s, s+" WITH Bison-exception-2.2", s+" WITH bison-EXCEPTION-2.2")
		}
	}
	terms = append(terms, c02Refs...)
	c.Bound("single_terms", len(terms))
	for i, term := range terms {
		if !c.Mine(int64(i)) {
			continue
		}
		if c.Expired() {
			return
		}
		if !c.Begin("term " + term) {
			continue
		}
		msg, skip := c06Term(term)
		c.Inc("states")
		c.Add("transitions", 5)
		c.Inc("evaluations")
		if skip {
			c.Inc("skipped_panic_or_leaf")
			continue
		}
		c.Add("traces", 5)
		c.Inc("nontrivial")
		c.Outcome("single-term")
		if msg != "" {
			c.Report(Violation{Kind: "c06.case", Class: "term:" + first(errShape(msg), 24), Key: "term:" + term, Msg: msg, Size: len(term), Case: mustJSON(c06Case{Kind: "term", Expr: term})})
		}
	}
}
