package main

// C14 — cost is polynomial in input size. Explorer E1 over recursion families: every linear
// recursion context with <= k leaves is unrolled while the input stays under the length bound;
// each (family, n) is executed on the real code with an allocation monitor.

import (
	"encoding/json"
	"fmt"
	"runtime"
	"strings"
	"time"
)

type c14Case struct {
	Family string `json:"family"`
	N      int    `json:"n"`
	N0     int    `json:"n_half,omitempty"`
	Fn     string `json:"fn"`
	MaxLen int    `json:"max_len"`
}

// short ids so that as many recursion steps as possible fit under the length bound
var c14Pool = []string{"MIT", "ISC", "Zed", "X11", "Vim", "W3C", "TCL", "NTP", "LicenseRef-a", "DocumentRef-d:LicenseRef-b"}

// a second leaf pool: early versions of families the range table covers, measured against allowed lists
// of the SAME families (later versions that do not reach back: nothing matches although every leaf
// finds its family; and 1.0+ entries: everything matches through the range comparison)
var c14FamPool = []string{"GPL-2.0-only", "LGPL-2.1-only", "GPL-1.0-only", "AGPL-1.0-only", "LGPL-2.0-only", "Apache-1.1", "GFDL-1.1-only", "Apache-1.0"}
var c14FamLater = []string{"MIT", "GPL-3.0-or-later", "LGPL-3.0-or-later", "AGPL-3.0-or-later", "Apache-2.0", "GFDL-1.3-or-later"}
var c14FamEarlierPlus = []string{"GPL-1.0+", "LGPL-2.0+", "AGPL-1.0+", "Apache-1.0+", "GFDL-1.1+"}

const c14FamPrefix = "same-family-leaves|"

// a third leaf pool: every leaf carries a WITH exception (a parser or evaluator that treats such terms
// specially - look-ahead, re-parsing, exception filtering - works harder on exactly these)
const c14WithPrefix = "with-leaves|"

var c14WithPool = func() []string {
	var out []string
	for _, id := range c14Pool[:8] {
		out = append(out, id+" WITH mif-exception")
	}
	return out
}()

func c14CtxName(family string) string {
	return strings.TrimPrefix(strings.TrimPrefix(family, c14FamPrefix), c14WithPrefix)
}

// c14FamAllowed: the allowed list of a same-family context for one of the two Satisfies functions.
func c14FamAllowed(family, fn string) []string {
	if !strings.HasPrefix(family, c14FamPrefix) {
		return nil
	}
	switch fn {
	case "Satisfies/none-allowed":
		return c14FamLater
	case "Satisfies/all-allowed":
		return c14FamEarlierPlus
	}
	return nil
}

// c14Context describes one linear recursion context: a tree shape with operators and a hole.
type c14Context struct {
	t    *Tree
	hole int
	name string
}

func c14Contexts(k int) []c14Context {
	trees := TreesUpTo(k, 1)
	var out []c14Context
	for n := 2; n <= k; n++ {
		for _, t := range trees[n] {
			for h := 0; h < n; h++ {
				cx := c14Context{t: t, hole: h}
				i := 0
				cx.name = ctxRender(t, h, "□", func() string { i++; return fmt.Sprintf("x%d", i) })
				out = append(out, cx)
			}
		}
	}
	return out
}

func ctxRender(t *Tree, hole int, inner string, next func() string) string {
	leaf := 0
	var rec func(t *Tree, top bool) string
	rec = func(t *Tree, top bool) string {
		if t.Op == 0 {
			l := leaf
			leaf++
			if l == hole {
				if strings.ContainsAny(inner, " ") {
					return "(" + inner + ")"
				}
				return inner
			}
			return next()
		}
		s := rec(t.L, false) + opWord(t.Op) + rec(t.R, false)
		if top {
			return s
		}
		return "(" + s + ")"
	}
	return rec(t, true)
}

// c14Input builds member n of a family: expression + allowed list. ok=false when the family has no such member.
func c14Input(family string, n int, ctxs map[string]c14Context) (expr string, allowed []string, ok bool) {
	pool := c14Pool
	if strings.HasPrefix(family, c14FamPrefix) {
		pool = c14FamPool
	} else if strings.HasPrefix(family, c14WithPrefix) {
		pool = c14WithPool
	}
	if cx, isCtx := ctxs[c14CtxName(family)]; isCtx {
		p := 0
		next := func() string { s := pool[p%len(pool)]; p++; return s }
		e := next()
		for i := 1; i < n; i++ {
			e = ctxRender(cx.t, cx.hole, e, next)
		}
		return e, nil, true
	}
	ids := T().Active
	switch family {
	case "paren-depth":
		return strings.Repeat("(", n) + "MIT" + strings.Repeat(")", n), nil, true
	case "spaces":
		return strings.Repeat(" ", n) + "MIT" + strings.Repeat(" ", n) + "AND ISC", nil, true
	case "long-unknown-id":
		return strings.Repeat("a", n), nil, true
	case "long-licenseref":
		return "LicenseRef-" + strings.Repeat("a", n), []string{"LicenseRef-" + strings.Repeat("a", n)}, true
	case "or-later-rewrites":
		var l []string
		for i := 0; i < n; i++ {
			l = append(l, c14Pool[i%8]+"-or-later")
		}
		return strings.Join(l, " AND "), nil, true
	case "plus-terms":
		var l []string
		for i := 0; i < n; i++ {
			l = append(l, c14Pool[i%8]+"+")
		}
		return strings.Join(l, " OR "), nil, true
	case "with-terms":
		var l []string
		for i := 0; i < n; i++ {
			l = append(l, c14Pool[i%8]+" WITH Bison-exception-2.2")
		}
		return strings.Join(l, " AND "), nil, true
	case "allowed-equal":
		l := make([]string, n)
		for i := range l {
			l[i] = "MIT"
		}
		return "MIT AND ISC", l, true
	case "allowed-distinct":
		l := make([]string, n)
		for i := range l {
			l[i] = ids[(i*7)%len(ids)]
		}
		return "MIT AND ISC", l, true
	case "allowed-family-overlap":
		fam := []string{"GPL-1.0+", "GPL-2.0-only", "GPL-3.0", "GPL-2.0+", "GPL-1.0-only", "GPL-3.0-or-later", "LGPL-2.1+", "LGPL-3.0-only"}
		l := make([]string, n)
		for i := range l {
			l[i] = fam[i%len(fam)]
		}
		return "GPL-2.0 AND LGPL-3.0 AND MIT", l, true
	case "n-terms-n-entries":
		var e []string
		l := make([]string, n)
		for i := 0; i < n; i++ {
			e = append(e, ids[(i*11)%len(ids)])
			l[n-1-i] = ids[(i*11)%len(ids)]
		}
		return strings.Join(e, " AND "), l, true
	case "invalid:paren-depth-missing-operator":
		return strings.Repeat("(", n) + "MIT ISC" + strings.Repeat(")", n), nil, true
	case "invalid:paren-depth-dangling-and":
		return strings.Repeat("(", n) + "MIT AND" + strings.Repeat(")", n), nil, true
	case "invalid:paren-depth-leading-or":
		return strings.Repeat("(", n) + "OR MIT" + strings.Repeat(")", n), nil, true
	case "invalid:paren-depth-unknown-id":
		return strings.Repeat("(", n) + "MIT AND FOO" + strings.Repeat(")", n), nil, true
	case "invalid:unclosed":
		return strings.Repeat("(MIT AND ", n) + "ISC", nil, true
	case "invalid:overclosed":
		return "MIT" + strings.Repeat(" AND ISC)", n), nil, true
	case "invalid:chain-then-missing-operator":
		l := make([]string, n)
		for i := range l {
			l[i] = c14Pool[i%8]
		}
		return strings.Join(l, " OR ") + " MIT", nil, true
	case "invalid:groups-then-dangling":
		return strings.Repeat("(MIT OR ISC) AND ", n) + "(", nil, true
	case "invalid:with-without-exception":
		return strings.Repeat("(", n) + "MIT WITH" + strings.Repeat(")", n), nil, true
	case "invalid:allowed-invalid-last":
		l := make([]string, n)
		for i := range l {
			l[i] = ids[(i*7)%len(ids)]
		}
		l[n-1] = "FOO AND"
		return "MIT AND ISC", l, true
	case "invalid:complete-then-plus", "invalid:complete-then-colon", "invalid:complete-then-with", "invalid:complete-then-exception", "invalid:complete-then-group-starting-with-operator", "invalid:complete-then-lone-operator-in-parens":
		// a complete (parenthesised n deep) expression followed by tokens that cannot continue it: the
		// diagnosis of the leftover must terminate
		tail := map[string]string{"invalid:complete-then-plus": "+", "invalid:complete-then-colon": ":ISC", "invalid:complete-then-with": " WITH Bison-exception-2.2",
			"invalid:complete-then-exception": " Bison-exception-2.2", "invalid:complete-then-group-starting-with-operator": " (AND ISC)", "invalid:complete-then-lone-operator-in-parens": " ((OR))"}[family]
		return strings.Repeat("(", n) + "MIT OR ISC" + strings.Repeat(")", n) + tail, nil, true
	case "repeated-term-or":
		l := make([]string, n)
		for i := range l {
			l[i] = "MIT"
		}
		return strings.Join(l, " OR "), nil, true
	}
	return "", nil, false
}

var c14Scalar = []string{"paren-depth", "spaces", "long-unknown-id", "long-licenseref", "or-later-rewrites", "plus-terms", "with-terms",
	"allowed-equal", "allowed-distinct", "allowed-family-overlap", "n-terms-n-entries", "repeated-term-or",
	// error paths: the input is invalid, the cost must still be polynomial
	"invalid:paren-depth-missing-operator", "invalid:paren-depth-dangling-and", "invalid:paren-depth-leading-or", "invalid:paren-depth-unknown-id",
	"invalid:unclosed", "invalid:overclosed", "invalid:chain-then-missing-operator", "invalid:groups-then-dangling", "invalid:with-without-exception", "invalid:allowed-invalid-last",
	"invalid:complete-then-plus", "invalid:complete-then-colon", "invalid:complete-then-with", "invalid:complete-then-exception", "invalid:complete-then-group-starting-with-operator", "invalid:complete-then-lone-operator-in-parens"}

var c14Fns = []string{"Satisfies/none-allowed", "Satisfies/all-allowed", "ExtractLicenses", "ValidateLicenses"}

type c14Cost struct {
	Alloc   uint64
	Mallocs uint64
	Dur     time.Duration
	Panic   bool
}

func c14Measure(fn, expr string, allowed []string) c14Cost {
	var a, b runtime.MemStats
	var al []string
	switch fn {
	case "Satisfies/none-allowed":
		al = []string{"Unlicense"}
	case "Satisfies/all-allowed":
		al = c14Pool
	}
	if allowed != nil {
		al = allowed
	}
	runtime.ReadMemStats(&a)
	st := time.Now()
	pan := false
	switch fn {
	case "ExtractLicenses":
		pan = Ext(expr).Panic != ""
	case "ValidateLicenses":
		pan = Val(append([]string{expr}, allowed...)).Panic != ""
	default:
		pan = Sat(expr, al).Panic != ""
	}
	d := time.Since(st)
	runtime.ReadMemStats(&b)
	return c14Cost{Alloc: b.TotalAlloc - a.TotalAlloc, Mallocs: b.Mallocs - a.Mallocs, Dur: d, Panic: pan}
}

func argLen(expr string, allowed []string) int {
	n := len(expr)
	for _, a := range allowed {
		n += len(a)
	}
	return n
}

const c14Gi = 1 << 30

func c14Judge(fam string, n, n0 int, fn string, cur, half c14Cost, length int) string {
	if cur.Alloc >= c14Gi {
		return fmt.Sprintf("%s on family %s n=%d (%d bytes of input) allocated %d MiB", fn, fam, n, length, cur.Alloc>>20)
	}
	if cur.Dur > 10*time.Second {
		return fmt.Sprintf("%s on family %s n=%d (%d bytes of input) ran for %v", fn, fam, n, length, cur.Dur)
	}
	if n0 >= 2 && half.Alloc > 0 && cur.Alloc > 20*half.Alloc && cur.Alloc > 1<<20 {
		return fmt.Sprintf("%s on family %s: allocation grows faster than n^4: n=%d -> %d bytes, n=%d -> %d bytes (x%.1f for a doubling; %d bytes of input)", fn, fam, n0, half.Alloc, n, cur.Alloc, float64(cur.Alloc)/float64(half.Alloc), length)
	}
	return ""
}

func c14CtxMap(k int) (map[string]c14Context, []string) {
	m := map[string]c14Context{}
	var names []string
	for _, cx := range c14Contexts(k) {
		m[cx.name] = cx
		names = append(names, cx.name)
	}
	return m, names
}

func init() {
	kinds["c14.perid"] = func(raw json.RawMessage) string {
		var cs c14Case
		if err := json.Unmarshal(raw, &cs); err != nil {
			return "bad case"
		}
		parts := strings.SplitN(cs.Family, ":", 3) // per-id:<form>:<id>
		if len(parts) != 3 {
			return "bad case"
		}
		forms := map[string][2]string{"term-vs-MIT": {"%s", "MIT"}, "MIT-vs-entry": {"MIT", "%s"}, "plus-vs-MIT": {"%s+", "MIT"}, "MIT-vs-plus-entry": {"MIT", "%s+"}, "self-plus": {"%s", "%s+"}}
		f, ok := forms[parts[1]]
		if !ok {
			return "bad case"
		}
		cost := c14Measure("Satisfies/per-id", strings.ReplaceAll(f[0], "%s", parts[2]), []string{strings.ReplaceAll(f[1], "%s", parts[2])})
		ref := c14Measure("Satisfies/per-id", strings.ReplaceAll(f[0], "%s", "Zlib"), []string{strings.ReplaceAll(f[1], "%s", "Zlib")})
		if cost.Alloc >= c14Gi || (cost.Alloc > 16<<20 && ref.Alloc > 0 && cost.Alloc > 1000*ref.Alloc) {
			return fmt.Sprintf("single-term call for id %s (%s) allocates %d bytes; the same call for Zlib allocates %d", parts[2], parts[1], cost.Alloc, ref.Alloc)
		}
		return ""
	}
	kinds["c14.case"] = func(raw json.RawMessage) string {
		var cs c14Case
		if err := json.Unmarshal(raw, &cs); err != nil {
			return "bad case"
		}
		ctxs, _ := c14CtxMap(4)
		expr, allowed, ok := c14Input(cs.Family, cs.N, ctxs)
		if !ok {
			return ""
		}
		if fa := c14FamAllowed(cs.Family, cs.Fn); fa != nil {
			allowed = fa
		}
		cur := c14Measure(cs.Fn, expr, allowed)
		var half c14Cost
		if cs.N0 >= 2 {
			e0, a0, _ := c14Input(cs.Family, cs.N0, ctxs)
			if fa := c14FamAllowed(cs.Family, cs.Fn); fa != nil {
				a0 = fa
			}
			half = c14Measure(cs.Fn, e0, a0)
		}
		return c14Judge(cs.Family, cs.N, cs.N0, cs.Fn, cur, half, argLen(expr, allowed))
	}
	register(&PropDef{
		ID:       "C14",
		Title:    "cost is polynomial in input size",
		Explorer: "E1 exhaustive enumeration of linear recursion families (every context <= k leaves with a hole) unrolled under a length bound, deterministic allocation monitor on the real code",
		Rule: "family = a recursion context (tree with <= k leaves, any AND/OR labelling, one leaf marked as hole; e1 = a term, e(n+1) = C[e(n)] with fresh leaves round-robin from 8 licence ids + 2 references; and every context once more with leaves from 8 early versions of range-table families against allowed lists of the same families that reach none / all of them; and once more with leaves that all carry a WITH exception) or one of 28 scalar families (parenthesis depth, spaces, long ids, rewrite chains, long / overlapping allowed lists, n terms vs n entries, and 16 families of INVALID input that exercise the error paths, 6 of them a complete expression followed by tokens that cannot continue it); each family is unrolled n = 1,2,3,... (scalar: doubling) while the total argument length stays <= B bytes (B = 2048 quick, 4096 thorough); " +
			"state = (family, n), 4 transitions (Satisfies with nothing / everything allowed, ExtractLicenses, ValidateLicenses); oracles: completes, TotalAlloc delta < 1 GiB, < 10 s, and alloc(2n) <= 20*alloc(n) (local degree <= 4); non-trivial = states with n >= 4 of families whose context contains both operators",
		Assumptions: []string{
			"TotalAlloc/Mallocs deltas of a single-goroutine call are deterministic; the growth law is evaluated on every doubling inside the bound, its continuation beyond the bound is an extrapolation",
			"a polynomial with non-negative coefficients of degree <= 4 satisfies c(2n) <= 16 c(n) for every n, so the factor-20 oracle cannot fire on polynomial code of that degree; allocations under 1 MiB are never judged by the growth law",
		},
		Budget: func(t string) int {
			if t == "thorough" {
				return 2400
			}
			return 240
		},
		Run: c14Run,
	})
}

// c14PerID: the cost of a single-term call must not depend on WHICH listed id it names: every id, with
// and without '+', on either side. A call is flagged if it allocates 1 GiB, or both 16 MiB and 1000
// times the median of the same call over the other ids of the shard.
func c14PerID(c *Ctx) {
	type m struct {
		desc string
		cs   c14Case
		cost c14Cost
	}
	ids := T().AllLicenseIDs()
	forms := []struct{ name, expr, allowed string }{
		{"term-vs-MIT", "%s", "MIT"}, {"MIT-vs-entry", "MIT", "%s"}, {"plus-vs-MIT", "%s+", "MIT"}, {"MIT-vs-plus-entry", "MIT", "%s+"}, {"self-plus", "%s", "%s+"},
	}
	c.Bound("per_id", map[string]any{"ids": len(ids), "forms": forms})
	byForm := map[string][]m{}
	for i, id := range ids {
		if !c.Mine(int64(i)) || strings.HasSuffix(id, "+") {
			continue
		}
		if c.Expired() {
			return
		}
		for _, f := range forms {
			expr := strings.ReplaceAll(f.expr, "%s", id)
			al := strings.ReplaceAll(f.allowed, "%s", id)
			desc := fmt.Sprintf("Satisfies/per-id | id %s form %s", id, f.name)
			if !c.Begin(desc) {
				continue
			}
			cost := c14Measure("Satisfies/per-id", expr, []string{al})
			c.Inc("states")
			c.Inc("transitions")
			c.Inc("evaluations")
			c.Inc("per_id_calls")
			if cost.Panic {
				c.Inc("skipped_panic")
				continue
			}
			c.Inc("traces")
			byForm[f.name] = append(byForm[f.name], m{desc, c14Case{Family: "per-id:" + f.name + ":" + id, Fn: "Satisfies/per-id", N: 1}, cost})
		}
	}
	for name, l := range byForm {
		allocs := make([]uint64, len(l))
		for i, x := range l {
			allocs[i] = x.cost.Alloc
		}
		sortU64(allocs)
		med := allocs[len(allocs)/2]
		for _, x := range l {
			bad := x.cost.Alloc >= c14Gi || (x.cost.Alloc > 16<<20 && med > 0 && x.cost.Alloc > 1000*med) || x.cost.Dur > 10*time.Second
			if bad {
				c.Report(Violation{Kind: "c14.perid", Class: "cost:per-id:" + name, Key: "cost:" + x.cs.Family, Size: 1,
					Msg:  fmt.Sprintf("%s allocated %d bytes in %v; the median of the same call over the other ids is %d bytes", x.desc, x.cost.Alloc, x.cost.Dur, med),
					Case: mustJSON(x.cs)})
			}
		}
	}
}

func sortU64(a []uint64) {
	for i := 1; i < len(a); i++ {
		for j := i; j > 0 && a[j] < a[j-1]; j-- {
			a[j], a[j-1] = a[j-1], a[j]
		}
	}
}

func c14Run(c *Ctx) {
	c14PerID(c)
	k, B := 3, 2048
	if c.Thorough() {
		k, B = 5, 4096
	}
	ctxs, names := c14CtxMap(k)
	fams := append(append([]string{}, names...), c14Scalar...)
	for _, n := range names {
		fams = append(fams, c14FamPrefix+n)
	}
	for _, n := range names {
		fams = append(fams, c14WithPrefix+n)
	}
	c.Bound("families", map[string]any{"context_max_leaves": k, "contexts": len(names), "same_family_leaf_pool": c14FamPool, "with_leaf_pool": c14WithPool, "same_family_allowed": map[string]any{"Satisfies/none-allowed": c14FamLater, "Satisfies/all-allowed": c14FamEarlierPlus}, "scalar": c14Scalar, "max_total_argument_bytes": B, "functions": c14Fns})
	for fi, fam := range fams {
		if !c.Mine(int64(fi)) {
			continue
		}
		_, isCtx := ctxs[c14CtxName(fam)]
		famLeaves := strings.HasPrefix(fam, c14FamPrefix)
		both := strings.Contains(fam, "AND") && strings.Contains(fam, "OR")
		for _, fn := range c14Fns {
			if famLeaves && !strings.HasPrefix(fn, "Satisfies") {
				continue // the allowed list plays no part in the other two functions
			}
			costs := map[int]c14Cost{}
			stopped := false
			for n := 1; !stopped; {
				if c.Expired() {
					return
				}
				expr, allowed, ok := c14Input(fam, n, ctxs)
				if !ok || argLen(expr, allowed) > B {
					break
				}
				if fn != "ValidateLicenses" && strings.HasPrefix(fn, "Satisfies") && allowed != nil && fn == "Satisfies/all-allowed" {
					break // families with their own allowed list are measured once
				}
				if fa := c14FamAllowed(fam, fn); fa != nil {
					allowed = fa
				}
				desc := fmt.Sprintf("%s | family %s n=%d", fn, fam, n)
				if !c.Begin(desc) {
					// this (family, n) killed a worker before: the supervisor reports it; stop unrolling
					break
				}
				cur := c14Measure(fn, expr, allowed)
				costs[n] = cur
				c.Inc("states")
				c.Inc("transitions")
				c.Inc("evaluations")
				c.Inc("traces")
				if n >= 4 && both {
					c.Inc("nontrivial")
				}
				n0 := 0
				var half c14Cost
				if n%2 == 0 {
					if h, ok := costs[n/2]; ok && n/2 >= 2 {
						n0, half = n/2, h
						c.Inc("doublings_judged")
					}
				}
				if cur.Panic {
					c.Inc("skipped_panic")
				} else if msg := c14Judge(fam, n, n0, fn, cur, half, argLen(expr, allowed)); msg != "" {
					c.Outcome("violation")
					c.Report(Violation{Kind: "c14.case", Class: "cost:" + fn, Key: "cost:" + fn + ":" + fam, Msg: msg, Size: len(fam),
						Case: mustJSON(c14Case{Family: fam, N: n, N0: n0, Fn: fn, MaxLen: B})})
					stopped = true
				} else {
					c.Outcome("within-bounds")
				}
				if cur.Alloc > 256<<20 {
					stopped = true // do not push a family that already costs a quarter GiB
					c.Inc("families_stopped_at_256MiB")
				}
				if n == 8 || (!isCtx && n == 64) {
					c.Sample(func() any {
						return map[string]any{"family": fam, "n": n, "fn": fn, "input_bytes": argLen(expr, allowed), "alloc_bytes": cur.Alloc, "mallocs": cur.Mallocs, "input": first(expr, 120)}
					})
				}
				if isCtx {
					n++
				} else if n < 4 {
					n++
				} else {
					n *= 2
				}
			}
		}
	}
}
