package main

// C02 — single-term matching rule. Explorer E1 over id x spelling x exception pairs; oracle: R-term,
// symmetry, reflexivity.

import (
	"encoding/json"
	"fmt"
	"strings"
)

type c02Case struct {
	A string `json:"a"`
	B string `json:"b"`
}

// spellings of one listed id (only those that are valid and not don't-care)
func spellings(id string) []string {
	var out []string
	add := func(s string) {
		base := strings.TrimRight(s, "+")
		if k := ClassifyID(base); k.K == TDontCare || k.K == TUnknown || k.K == TExc {
			return
		}
		if !NormTerm(s).Valid {
			return
		}
		for _, x := range out {
			if x == s {
				return
			}
		}
		out = append(out, s)
	}
	add(id)
	if !strings.HasSuffix(id, "+") {
		add(id + "+")
		add(id + "-only")
		add(id + "-or-later")
	}
	add(strings.ToLower(id))
	add(strings.ToUpper(id))
	return out
}

func c02Check(a, b string) (msg string, skip string, model bool) {
	na, nb := NormTerm(a), NormTerm(b)
	if !na.Valid || !nb.Valid {
		return "", "model-invalid", false
	}
	want, amb := MatchTerms(na, nb)
	r1 := Sat(a, []string{b})
	r2 := Sat(b, []string{a})
	if amb {
		// an id listed at several table positions has no well-defined family (C11's finding): the rule
		// is not applied, but the answer must still be symmetric and the same when asked again
		r3 := Sat(a, []string{b})
		if r1.Panic != "" || r2.Panic != "" || r3.Panic != "" {
			return "", "panic", false
		}
		if r1.Ok != r2.Ok || r1.IsErr != r2.IsErr {
			return fmt.Sprintf("asymmetric: Satisfies(%q,[%q])=%v but Satisfies(%q,[%q])=%v", a, b, r1.Ok, b, a, r2.Ok), "", false
		}
		if r1 != r3 {
			return fmt.Sprintf("Satisfies(%q,[%q]) answered %v and then %v", a, b, r1.Ok, r3.Ok), "", false
		}
		return "", "ambiguous-table-position", false
	}
	if r1.Panic != "" || r2.Panic != "" {
		return "", "panic", want
	}
	if r1.IsErr || r2.IsErr {
		return fmt.Sprintf("Satisfies(%q,[%q]) err=%q / reverse err=%q for two valid single terms", a, b, r1.Err, r2.Err), "", want
	}
	if r1.Ok != r2.Ok {
		return fmt.Sprintf("asymmetric: Satisfies(%q,[%q])=%v but Satisfies(%q,[%q])=%v", a, b, r1.Ok, b, a, r2.Ok), "", want
	}
	if r1.Ok != want {
		return fmt.Sprintf("Satisfies(%q,[%q])=%v but the matching rule says %v", a, b, r1.Ok, want), "", want
	}
	if a == b && !r1.Ok {
		return fmt.Sprintf("irreflexive: %q does not match itself", a), "", want
	}
	return "", "", want
}

func init() {
	kinds["c02.pair"] = func(raw json.RawMessage) string {
		var cs c02Case
		if err := json.Unmarshal(raw, &cs); err != nil {
			return "bad case"
		}
		msg, _, _ := c02Check(cs.A, cs.B)
		return msg
	}
	register(&PropDef{
		ID:       "C02",
		Title:    "single-term matching follows the version / + / exception / ref rules",
		Explorer: "E1 exhaustive id x spelling x exception pair enumeration vs R-term, plus symmetry and reflexivity",
		Rule: "terms = every listed license id (active+deprecated) in spellings {X, X+, X-only, X-or-later, lower, upper} that are valid, with exception contexts, plus 8 reference terms; every id whose name starts with the text of a range-table id x that relative (plain, +) x every listed exception on one side and on both; " +
			"state = unordered pair of terms, transitions = the two Satisfies(a,[b]) / Satisfies(b,[a]) calls; quick: full cross product over the ids of the family table + neighbourhood pairs for all other ids, thorough: full cross product over all ids; " +
			"non-trivial = pairs of textually different terms for which the rule says 'match', or that belong to the same family and do not match",
		Assumptions: []string{
			"R-term (rterm.go): normaliser + the rule of C02 transcribed, family/version positions read from LicenseRanges() of the built tree",
			"pairs involving an id that sits at more than one table position are skipped and counted (the ill-formed table is C11's finding)",
		},
		Run: c02Run,
	})
}

var c02Refs = []string{"LicenseRef-a", "LicenseRef-A", "LicenseRef-b", "DocumentRef-d:LicenseRef-a", "DocumentRef-e:LicenseRef-a",
	"DocumentRef-d:LicenseRef-b", "LicenseRef-MIT", "DocumentRef-MIT:LicenseRef-MIT"}

func c02Pair(c *Ctx, a, b string) {
	if !c.Begin(a + " | " + b) {
		return
	}
	msg, skip, model := c02Check(a, b)
	c.Inc("states")
	c.Add("transitions", 2)
	c.Inc("evaluations")
	if skip != "" {
		c.Inc("skipped_" + skip)
		c.Outcome("skipped:" + skip)
		return
	}
	c.Add("traces", 2)
	na, nb := NormTerm(a), NormTerm(b)
	pos := tablePos()
	pa, oka := pos[na.ID]
	pb, okb := pos[nb.ID]
	sameFam := oka && okb && pa.Fam == pb.Fam && !na.Ref && !nb.Ref
	if (model && a != b) || (!model && sameFam) {
		c.Inc("nontrivial")
	}
	switch {
	case model && na.ID == nb.ID:
		c.Outcome("match:same-id")
	case model && na.Ref:
		c.Outcome("match:ref")
	case model:
		c.Outcome("match:family")
	case sameFam:
		c.Outcome("nomatch:same-family")
	case na.Exc != nb.Exc:
		c.Outcome("nomatch:exception")
	default:
		c.Outcome("nomatch:other")
	}
	c.Sample(func() any { return map[string]any{"a": a, "b": b, "rule_says": model} })
	if msg != "" {
		cl := "model-mismatch"
		if strings.HasPrefix(msg, "asymmetric") {
			cl = "asymmetric"
		} else if strings.HasPrefix(msg, "irreflexive") {
			cl = "irreflexive"
		} else if strings.Contains(msg, "err=") {
			cl = "error-on-valid"
		}
		c.Report(Violation{Kind: "c02.pair", Class: cl, Key: a + " | " + b, Msg: msg, Size: len(a) + len(b),
			Case: mustJSON(c02Case{A: a, B: b}), GoTest: fmt.Sprintf("spdxexp.Satisfies(%q, []string{%q})", a, b)})
	}
}

func c02Run(c *Ctx) {
	t := T()
	pos := tablePos()
	all := t.AllLicenseIDs()
	var tableIDs, otherIDs []string
	for _, id := range all {
		n := NormTerm(id)
		if _, ok := pos[n.ID]; ok {
			tableIDs = append(tableIDs, id)
		} else {
			otherIDs = append(otherIDs, id)
		}
	}
	excE, excF := "Bison-exception-2.2", "Classpath-exception-2.0"
	c.Bound("ids", map[string]any{"table_ids": len(tableIDs), "other_ids": len(otherIDs), "exceptions": []string{excE, excF}, "refs": c02Refs})

	cross := func(terms []string, withSelf bool) bool {
		for i := range terms {
			if !c.Mine(int64(i)) {
				continue
			}
			for j := i; j < len(terms); j++ {
				if c.Expired() {
					return false
				}
				if i == j && !withSelf {
					continue
				}
				c02Pair(c, terms[i], terms[j])
			}
		}
		return true
	}

	var tableTerms, allTerms []string
	for _, id := range tableIDs {
		tableTerms = append(tableTerms, spellings(id)...)
	}
	if c.Thorough() {
		for _, id := range all {
			allTerms = append(allTerms, spellings(id)...)
		}
		allTerms = append(allTerms, c02Refs...)
		c.Bound("cross_product_terms", len(allTerms))
		if !cross(allTerms, true) {
			return
		}
	} else {
		c.Bound("cross_product_terms", len(tableTerms))
		if !cross(tableTerms, true) {
			return
		}
		// neighbourhood pairs for ids outside the table
		for k, id := range otherIDs {
			if !c.Mine(int64(k)) {
				continue
			}
			if c.Expired() {
				return
			}
			tx := spellings(id)
			for i := range tx {
				for j := i; j < len(tx); j++ {
					c02Pair(c, tx[i], tx[j])
				}
			}
			var ys []string
			if k > 0 {
				ys = append(ys, otherIDs[k-1])
			}
			for _, y := range append(ys, "MIT", "GPL-2.0") {
				if y == id {
					continue
				}
				for _, a := range tx {
					for _, b := range spellings(y) {
						c02Pair(c, a, b)
					}
				}
			}
			for _, a := range tx {
				c02Pair(c, a, "LicenseRef-a")
			}
			// against the first and the last version of every family (table position 0 is special to
			// code that confuses 'not in the table' with 'at the first position')
			for _, f := range T().Ranges {
				if len(f) == 0 || len(f[0]) == 0 || len(f[len(f)-1]) == 0 {
					continue
				}
				for _, y := range []string{f[0][0], f[len(f)-1][0]} {
					for _, a := range []string{id, id + "+"} {
						if !NormTerm(a).Valid {
							continue
						}
						c02Pair(c, a, y)
						if NormTerm(y + "+").Valid {
							c02Pair(c, a, y+"+")
						}
					}
				}
			}
		}
		// references
		if c.Mine(0) {
			for i := range c02Refs {
				for j := i; j < len(c02Refs); j++ {
					c02Pair(c, c02Refs[i], c02Refs[j])
				}
				for _, l := range []string{"MIT", "mit", "GPL-2.0+", "GPL-2.0-only", "Apache-2.0-or-later", "MIT WITH " + excE} {
					c02Pair(c, c02Refs[i], l)
				}
			}
		}
	}
	// ids whose name starts with the text of a range-table id (GPL-2.0-with-GCC-exception, GPL-2.0-only ...)
	// against that relative, with and without '+', carrying EVERY listed exception, on one side and on both
	nrel := 0
	for k, id := range all {
		rel := nameRelatives(id)
		if len(rel) == 0 {
			continue
		}
		nrel++
		if !c.Mine(int64(k)) {
			continue
		}
		for _, m := range rel {
			for _, b := range []string{m, m + "+"} {
				if !NormTerm(b).Valid {
					continue
				}
				for _, e := range t.Exceptions {
					if c.Expired() {
						return
					}
					c02Pair(c, id, b+" WITH "+e)
					c02Pair(c, id+" WITH "+e, b+" WITH "+e)
				}
			}
		}
	}
	c.Bound("name_relative_pairs", map[string]any{"ids_with_name_relatives": nrel, "exceptions": len(t.Exceptions)})
	// exception contexts on the table ids
	var base []string
	for _, id := range tableIDs {
		sp := spellings(id)
		if !c.Thorough() {
			var s2 []string
			for _, s := range sp {
				if s == id || s == id+"+" {
					s2 = append(s2, s)
				}
			}
			sp = s2
		}
		base = append(base, sp...)
	}
	c.Bound("exception_context_terms", len(base))
	ctxs := [][2]string{{excE, excE}, {excE, excF}, {excE, ""}, {"", excE}, {"bison-EXCEPTION-2.2", excE}}
	with := func(s, e string) string {
		if e == "" {
			return s
		}
		return s + " WITH " + e
	}
	for i := range base {
		if !c.Mine(int64(i)) {
			continue
		}
		for j := i; j < len(base); j++ {
			if c.Expired() {
				return
			}
			for _, cx := range ctxs {
				c02Pair(c, with(base[i], cx[0]), with(base[j], cx[1]))
			}
		}
	}
}
