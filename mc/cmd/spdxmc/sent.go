package main

// Valid sentences as token lists (trees over term forms) and token-level edits.

type Term []Tok

func termOf(texts ...string) Term { return Term(toks(texts)) }

// Tokens renders the tree as a token list: full = parenthesise every internal node below the
// root, otherwise only an OR below an AND.
func (t *Tree) Tokens(atoms []Term, full bool, out []Tok) []Tok {
	return t.tokens(atoms, full, true, out)
}

func (t *Tree) tokens(atoms []Term, full, top bool, out []Tok) []Tok {
	if t.Op == 0 {
		return append(out, atoms[t.Atom]...)
	}
	paren := full && !top
	if paren {
		out = append(out, Tok{Text: "(", K: TLP})
	}
	child := func(ch *Tree) {
		p := !full && t.Op == 'a' && ch.Op == 'o'
		if p {
			out = append(out, Tok{Text: "(", K: TLP})
		}
		out = ch.tokens(atoms, full, false, out)
		if p {
			out = append(out, Tok{Text: ")", K: TRP})
		}
	}
	child(t.L)
	if t.Op == 'a' {
		out = append(out, Tok{Text: "AND", K: TAnd})
	} else {
		out = append(out, Tok{Text: "OR", K: TOr})
	}
	child(t.R)
	if paren {
		out = append(out, Tok{Text: ")", K: TRP})
	}
	return out
}

// forEdits1 calls f with every token list at edit distance exactly 1 from seq (delete one token,
// insert any alphabet token anywhere, substitute any token by any alphabet token). The slice
// passed to f is reused.
func forEdits1(seq []Tok, alpha []Tok, f func([]Tok)) {
	buf := make([]Tok, 0, len(seq)+1)
	for i := range seq { // delete
		buf = append(buf[:0], seq[:i]...)
		buf = append(buf, seq[i+1:]...)
		f(buf)
	}
	for i := 0; i <= len(seq); i++ { // insert
		for _, a := range alpha {
			buf = append(buf[:0], seq[:i]...)
			buf = append(buf, a)
			buf = append(buf, seq[i:]...)
			f(buf)
		}
	}
	for i := range seq { // substitute
		for _, a := range alpha {
			if a.Text == seq[i].Text && a.K == seq[i].K {
				continue
			}
			buf = append(buf[:0], seq...)
			buf[i] = a
			f(buf)
		}
	}
}
