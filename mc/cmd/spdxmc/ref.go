package main

// Reference models: tables of the built tree, token kinds, the grammar recogniser (R-gram),
// the Boolean evaluator (R-bool) and expression trees with their renderers.

import (
	"strings"

	"github.com/github/go-spdx/v2/spdxexp/spdxlicenses"
)

// ---------------------------------------------------------------- tables (R-tab)

type Tables struct {
	Active, Deprecated, Exceptions []string
	Ranges                         [][][]string
	active, depr, exc              map[string]string // lower-case -> list spelling (first occurrence)
}

var tablesCache *Tables

func T() *Tables {
	if tablesCache != nil {
		return tablesCache
	}
	t := &Tables{Active: spdxlicenses.GetLicenses(), Deprecated: spdxlicenses.GetDeprecated(),
		Exceptions: spdxlicenses.GetExceptions(), Ranges: spdxlicenses.LicenseRanges()}
	mk := func(l []string) map[string]string {
		m := map[string]string{}
		for _, x := range l {
			k := strings.ToLower(x)
			if _, ok := m[k]; !ok {
				m[k] = x
			}
		}
		return m
	}
	t.active, t.depr, t.exc = mk(t.Active), mk(t.Deprecated), mk(t.Exceptions)
	tablesCache = t
	return t
}

func (t *Tables) IsActive(id string) (string, bool) {
	s, ok := t.active[strings.ToLower(id)]
	return s, ok
}
func (t *Tables) IsDepr(id string) (string, bool) { s, ok := t.depr[strings.ToLower(id)]; return s, ok }
func (t *Tables) IsExc(id string) (string, bool)  { s, ok := t.exc[strings.ToLower(id)]; return s, ok }
func (t *Tables) IsLicense(id string) bool {
	_, a := t.IsActive(id)
	_, d := t.IsDepr(id)
	return a || d
}

// AllLicenseIDs returns active then deprecated ids.
func (t *Tables) AllLicenseIDs() []string {
	return append(append([]string{}, t.Active...), t.Deprecated...)
}

// ---------------------------------------------------------------- token kinds (R-tok)

type TK uint8

const (
	TLic TK = iota
	TExc
	TUnknown
	TLRef
	TDRef
	TColon
	TLP
	TRP
	TAnd
	TOr
	TWith
	TPlus  // '+' directly abutting the previous token
	TSPlus // '+' preceded by a space: always invalid
	TDontCare
)

type Tok struct {
	Text      string
	K         TK
	MergePlus bool // Text+"+" is itself a listed id (GPL-2.0+ ...): "Text++" is then derivable
}

// ClassifyID gives the kind of an identifier-shaped token according to the documented rules:
// listed (case-insensitively) as license / exception, or an *active* listed id carrying -only /
// -or-later. A deprecated or exception id carrying a suffix is don't-care (the properties leave
// its status open).
func ClassifyID(text string) Tok {
	t := T()
	tok := Tok{Text: text}
	_, tok.MergePlus = t.IsDepr(text + "+")
	if _, ok := t.IsActive(text + "+"); ok {
		tok.MergePlus = true
	}
	switch {
	case strings.HasPrefix(text, "LicenseRef-") && len(text) > len("LicenseRef-"):
		tok.K = TLRef
		return tok
	case strings.HasPrefix(text, "DocumentRef-") && len(text) > len("DocumentRef-"):
		tok.K = TDRef
		return tok
	}
	if _, ok := t.IsActive(text); ok {
		tok.K = TLic
		return tok
	}
	if _, ok := t.IsExc(text); ok {
		tok.K = TExc
		return tok
	}
	if _, ok := t.IsDepr(text); ok {
		tok.K = TLic
		return tok
	}
	for _, suf := range []string{"-only", "-or-later"} {
		if strings.HasSuffix(text, suf) {
			base := text[:len(text)-len(suf)]
			if _, ok := t.IsActive(base); ok {
				tok.K = TLic
				return tok
			}
			if _, ok := t.IsExc(base); ok {
				tok.K = TDontCare
				return tok
			}
			if _, ok := t.IsDepr(base); ok {
				tok.K = TDontCare
				return tok
			}
		}
	}
	tok.K = TUnknown
	return tok
}

func OpTok(text string) Tok {
	switch text {
	case "(":
		return Tok{Text: text, K: TLP}
	case ")":
		return Tok{Text: text, K: TRP}
	case ":":
		return Tok{Text: text, K: TColon}
	case "AND":
		return Tok{Text: text, K: TAnd}
	case "OR":
		return Tok{Text: text, K: TOr}
	case "WITH":
		return Tok{Text: text, K: TWith}
	case "+":
		return Tok{Text: text, K: TPlus}
	case " +":
		return Tok{Text: "+", K: TSPlus}
	}
	return ClassifyID(text)
}

// ---------------------------------------------------------------- renderers

// RenderLoose: one space between all tokens, '+' abuts what precedes it, ' +' has its space.
func RenderLoose(seq []Tok) string {
	var b strings.Builder
	for i, t := range seq {
		switch {
		case t.K == TPlus:
		case t.K == TSPlus:
			b.WriteByte(' ')
		case i > 0:
			b.WriteByte(' ')
		}
		b.WriteString(t.Text)
	}
	return b.String()
}

// RenderTight: no space next to ( ) : and before an abutting '+'; one space elsewhere.
func RenderTight(seq []Tok) string {
	var b strings.Builder
	for i, t := range seq {
		sep := " "
		if i == 0 {
			sep = ""
		} else {
			p := seq[i-1].K
			if p == TLP || p == TRP || p == TColon || t.K == TLP || t.K == TRP || t.K == TColon {
				sep = ""
			}
		}
		if t.K == TPlus {
			sep = ""
		}
		if t.K == TSPlus {
			sep = " "
		}
		b.WriteString(sep)
		b.WriteString(t.Text)
	}
	return b.String()
}

// RenderPadded: two leading, two trailing spaces and three between tokens ('+' still abuts).
func RenderPadded(seq []Tok) string {
	var b strings.Builder
	b.WriteString("  ")
	for i, t := range seq {
		switch {
		case t.K == TPlus:
		case t.K == TSPlus:
			b.WriteString("  ")
		case i > 0:
			b.WriteString("   ")
		}
		b.WriteString(t.Text)
	}
	b.WriteString("  ")
	return b.String()
}

// RenderGlued: loose spacing, except that nothing separates AND / OR / WITH from the token after them
// ("MIT ORLicenseRef-a"). The documented grammar is about space-separated tokens and does not say
// whether this is accepted; callers ask the tree under test before using such a string as a valid prefix.
func RenderGlued(seq []Tok) string { return RenderGluedExcept(seq, -1) }

// RenderGluedExcept: as RenderGlued, but the keyword at index keep is followed by its space.
func RenderGluedExcept(seq []Tok, keep int) string {
	var b strings.Builder
	for i, t := range seq {
		switch {
		case t.K == TPlus:
		case t.K == TSPlus:
			b.WriteByte(' ')
		case i > 0 && i-1 != keep && (seq[i-1].K == TAnd || seq[i-1].K == TOr || seq[i-1].K == TWith):
		case i > 0:
			b.WriteByte(' ')
		}
		b.WriteString(t.Text)
	}
	return b.String()
}

// ---------------------------------------------------------------- grammar recogniser (R-gram)

// Derives reports whether the token sequence derives from the documented grammar.
// dontCare is true when the sequence contains a token whose status the properties leave open.
func Derives(seq []Tok) (ok bool, dontCare bool) {
	for _, t := range seq {
		if t.K == TDontCare {
			return false, true
		}
	}
	p := &gram{s: seq}
	if !p.expr() {
		return false, false
	}
	return p.i == len(seq), false
}

type gram struct {
	s []Tok
	i int
}

func (p *gram) at(k TK) bool { return p.i < len(p.s) && p.s[p.i].K == k }

func (p *gram) expr() bool {
	if !p.and() {
		return false
	}
	for p.at(TOr) {
		p.i++
		if !p.and() {
			return false
		}
	}
	return true
}

func (p *gram) and() bool {
	if !p.atom() {
		return false
	}
	for p.at(TAnd) {
		p.i++
		if !p.atom() {
			return false
		}
	}
	return true
}

func (p *gram) atom() bool {
	switch {
	case p.at(TLP):
		p.i++
		if !p.expr() || !p.at(TRP) {
			return false
		}
		p.i++
		return true
	case p.at(TDRef):
		p.i++
		if !p.at(TColon) {
			return false
		}
		p.i++
		if !p.at(TLRef) {
			return false
		}
		p.i++
		return true
	case p.at(TLRef):
		p.i++
		return true
	case p.at(TLic):
		merge := p.s[p.i].MergePlus
		p.i++
		if p.at(TPlus) {
			p.i++
			if merge && p.at(TPlus) {
				p.i++
			}
		}
		if p.at(TWith) {
			p.i++
			if !p.at(TExc) {
				return false
			}
			p.i++
		}
		return true
	}
	return false
}

// ---------------------------------------------------------------- trees and R-bool

type Tree struct {
	Op   byte // 'a' and, 'o' or, 0 leaf
	L, R *Tree
	Atom int
	n    int
}

func (t *Tree) Leaves() int {
	if t.Op == 0 {
		return 1
	}
	return t.n
}

// Eval is R-bool: truth is a bitmask over atom indexes.
func (t *Tree) Eval(truth uint32) bool {
	switch t.Op {
	case 0:
		return truth&(1<<uint(t.Atom)) != 0
	case 'a':
		return t.L.Eval(truth) && t.R.Eval(truth)
	default:
		return t.L.Eval(truth) || t.R.Eval(truth)
	}
}

func (t *Tree) AtomSet() uint32 {
	if t.Op == 0 {
		return 1 << uint(t.Atom)
	}
	return t.L.AtomSet() | t.R.AtomSet()
}

func (t *Tree) HasOp(op byte) bool {
	if t.Op == 0 {
		return false
	}
	return t.Op == op || t.L.HasOp(op) || t.R.HasOp(op)
}

func opWord(op byte) string {
	if op == 'a' {
		return " AND "
	}
	return " OR "
}

// RenderFull parenthesises every internal node (the parser then builds exactly this tree).
func (t *Tree) RenderFull(atoms []string, top bool) string {
	if t.Op == 0 {
		return atoms[t.Atom]
	}
	s := t.L.RenderFull(atoms, false) + opWord(t.Op) + t.R.RenderFull(atoms, false)
	if top {
		return s
	}
	return "(" + s + ")"
}

// RenderMin writes parentheses only around an OR that is a child of an AND.
func (t *Tree) RenderMin(atoms []string) string {
	if t.Op == 0 {
		return atoms[t.Atom]
	}
	l, r := t.L.RenderMin(atoms), t.R.RenderMin(atoms)
	if t.Op == 'a' {
		if t.L.Op == 'o' {
			l = "(" + l + ")"
		}
		if t.R.Op == 'o' {
			r = "(" + r + ")"
		}
	}
	return l + opWord(t.Op) + r
}

// RenderAssoc writes a right-nested chain of one operator flat ("A AND B AND C") but keeps the
// parentheses of every other internal child, in particular of a same-operator LEFT operand:
// "((A OR B) AND (C OR D) AND E) AND (F OR G) AND H". Together with RenderFull and RenderMin this
// covers the three ways a reader groups an n-ary chain.
func (t *Tree) RenderAssoc(atoms []string) string {
	if t.Op == 0 {
		return atoms[t.Atom]
	}
	l := t.L.RenderAssoc(atoms)
	if t.L.Op != 0 {
		l = "(" + l + ")"
	}
	r := t.R.RenderAssoc(atoms)
	if t.R.Op != 0 && t.R.Op != t.Op {
		r = "(" + r + ")"
	}
	return l + opWord(t.Op) + r
}

// ShapesUpTo returns, for each n in 1..maxN, every binary tree shape with n leaves and every
// AND/OR labelling, with the leaves numbered 0..n-1 from left to right (all leaves distinct).
func ShapesUpTo(maxN int) [][]*Tree {
	type shape struct {
		op   byte
		l, r *shape
		n    int
	}
	by := make([][]*shape, maxN+1)
	by[1] = []*shape{{n: 1}}
	for n := 2; n <= maxN; n++ {
		for k := 1; k < n; k++ {
			for _, op := range []byte{'a', 'o'} {
				for _, l := range by[k] {
					for _, r := range by[n-k] {
						by[n] = append(by[n], &shape{op: op, l: l, r: r, n: n})
					}
				}
			}
		}
	}
	var build func(s *shape, next *int) *Tree
	build = func(s *shape, next *int) *Tree {
		if s.op == 0 {
			t := &Tree{Atom: *next, n: 1}
			*next++
			return t
		}
		l := build(s.l, next)
		r := build(s.r, next)
		return &Tree{Op: s.op, L: l, R: r, n: s.n}
	}
	out := make([][]*Tree, maxN+1)
	for n := 1; n <= maxN; n++ {
		for _, s := range by[n] {
			i := 0
			out[n] = append(out[n], build(s, &i))
		}
	}
	return out
}

// LongTrees builds size-parameterised trees with n leaves (atoms cycle through 0..k-1): right and
// left chains of one operator, balanced trees, alternating right and left nests.
func LongTrees(n, k int) map[string]*Tree {
	leaf := func(i int) *Tree { return &Tree{Atom: i % k, n: 1} }
	node := func(op byte, l, r *Tree) *Tree { return &Tree{Op: op, L: l, R: r, n: l.Leaves() + r.Leaves()} }
	out := map[string]*Tree{}
	for _, op := range []byte{'a', 'o'} {
		name := map[byte]string{'a': "and", 'o': "or"}[op]
		r := leaf(n - 1)
		for i := n - 2; i >= 0; i-- {
			r = node(op, leaf(i), r)
		}
		out["right-chain-"+name] = r
		l := leaf(0)
		for i := 1; i < n; i++ {
			l = node(op, l, leaf(i))
		}
		out["left-chain-"+name] = l
		var bal func(lo, hi int) *Tree
		bal = func(lo, hi int) *Tree {
			if hi-lo == 1 {
				return leaf(lo)
			}
			m := (lo + hi) / 2
			return node(op, bal(lo, m), bal(m, hi))
		}
		out["balanced-"+name] = bal(0, n)
	}
	ops := []byte{'a', 'o'}
	r := leaf(n - 1)
	for i := n - 2; i >= 0; i-- {
		r = node(ops[i%2], leaf(i), r)
	}
	out["right-nest-alternating"] = r
	l := leaf(0)
	for i := 1; i < n; i++ {
		l = node(ops[i%2], l, leaf(i))
	}
	out["left-nest-alternating"] = l
	return out
}

var longSizes = []int{9, 10, 12, 16, 17, 31, 32, 33, 34, 35, 48, 63, 64, 65, 66, 100, 128, 129}
var longSizesThorough = []int{200, 256, 257, 512, 513, 1000, 1024, 1025}

// distinctAtoms: a pool of pairwise unrelated single terms for all-distinct leaf labellings.
var distinctAtoms = []string{"MIT", "ISC", "Zlib", "0BSD", "X11", "NTP", "W3C", "Vim", "LicenseRef-a", "DocumentRef-d:LicenseRef-b", "TCL", "Zed"}

// SExpr is a compact structural description used in replay files.
func (t *Tree) SExpr(atoms []string) string {
	if t.Op == 0 {
		return atoms[t.Atom]
	}
	op := "AND"
	if t.Op == 'o' {
		op = "OR"
	}
	return "(" + op + " " + t.L.SExpr(atoms) + " " + t.R.SExpr(atoms) + ")"
}

// TreesUpTo returns, for each n in 1..maxN, every binary tree with n leaves, every AND/OR
// labelling and every leaf labelling over nAtoms atoms (subtrees are shared).
func TreesUpTo(maxN, nAtoms int) [][]*Tree {
	by := make([][]*Tree, maxN+1)
	for a := 0; a < nAtoms; a++ {
		by[1] = append(by[1], &Tree{Atom: a, n: 1})
	}
	for n := 2; n <= maxN; n++ {
		for k := 1; k < n; k++ {
			for _, op := range []byte{'a', 'o'} {
				for _, l := range by[k] {
					for _, r := range by[n-k] {
						by[n] = append(by[n], &Tree{Op: op, L: l, R: r, n: n})
					}
				}
			}
		}
	}
	return by
}
