package main

// C13 — calls are pure: no argument mutation, no output, no history, safe under concurrency.
//  (1) monitors: every call of the C04 / C07 list spaces is watched for argument mutation and output;
//  (2) E2: explicit-state history explorer (fresh process per history, state = deep dump of all
//      package-level variables through a generated dump function);
//  (3) E3: controlled-scheduler interleaving explorer on an instrumented overlay of the working tree;
//  (4) free-running -race pass (sampling complement).

import (
	"crypto/sha1"
	"encoding/hex"
	"encoding/json"
	"fmt"
	"os"
	"os/exec"
	"path/filepath"
	"strings"
	"syscall"

	"verifmc/c13calls"
)

var goEnv = func() []string {
	flags := os.Getenv("GOFLAGS")
	if flags == "" {
		flags = "-mod=mod"
	}
	return []string{"GOFLAGS=" + flags, "GOPROXY=off", "GOSUMDB=off", "GOTOOLCHAIN=local"}
}()

func mcDir() string { return filepath.Join(verifRoot, "mc") }

func runCmd(dir string, env []string, name string, args ...string) (string, error) {
	cmd := exec.Command(name, args...)
	cmd.Dir = dir
	cmd.Env = append(append(os.Environ(), goEnv...), env...)
	out, err := cmd.CombinedOutput()
	return string(out), err
}

// c13Build instruments /repo's working tree and builds the two harnesses into dir.
func c13Build(dir string) error {
	if out, err := runCmd(mcDir(), []string{"GOMAXPROCS=8"}, "go", "build", "-o", filepath.Join(dir, "instr"), "./cmd/instr"); err != nil {
		return fmt.Errorf("build instrumenter: %v\n%s", err, out)
	}
	if out, err := runCmd(mcDir(), nil, filepath.Join(dir, "instr"), repoRoot, filepath.Join(mcDir(), "_shim"), filepath.Join(dir, "ov")); err != nil {
		return fmt.Errorf("instrumenter failed on %s: %v\n%s", repoRoot, err, out)
	}
	if out, err := runCmd(mcDir(), []string{"GOMAXPROCS=8"}, "go", "build", "-tags", "c13h", "-overlay", filepath.Join(dir, "ov", "overlay.json"), "-o", filepath.Join(dir, "c13h"), "./cmd/c13h"); err != nil {
		return fmt.Errorf("instrumented build failed: %v\n%s", err, out)
	}
	if out, err := runCmd(mcDir(), []string{"GOMAXPROCS=8"}, "go", "build", "-race", "-o", filepath.Join(dir, "c13race"), "./cmd/c13race"); err != nil {
		return fmt.Errorf("-race build failed: %v\n%s", err, out)
	}
	return nil
}

type c13Case struct {
	Kind     string              `json:"kind"` // call | hist | e3 | race
	Fn       string              `json:"fn,omitempty"`
	Expr     string              `json:"expr,omitempty"`
	List     []string            `json:"list,omitempty"`
	History  []int               `json:"history,omitempty"`
	Calls    []c13calls.Call     `json:"calls,omitempty"`
	Scenario *c13Scenario        `json:"scenario,omitempty"`
	Schedule []int               `json:"schedule,omitempty"`
	Finding  string              `json:"finding,omitempty"`
	Lists    map[string][]string `json:"shared_lists,omitempty"`
}

type c13Scenario struct {
	Name           string            `json:"name"`
	Threads        [][]c13calls.Call `json:"threads"`
	MaxPreemptions int               `json:"max_preemptions"`
	MaxMapDev      int               `json:"max_map_order_deviations"`
	MaxExecutions  int               `json:"max_executions"`
	BudgetS        int               `json:"budget_s"`
}

func fdSize(fd int) int64 {
	var st syscall.Stat_t
	if syscall.Fstat(fd, &st) != nil || st.Mode&syscall.S_IFMT != syscall.S_IFREG {
		return -1
	}
	return st.Size
}

// withCapturedOutput runs f with fd 1 and 2 redirected to a scratch file and returns what was written.
func withCapturedOutput(f func()) string {
	tmp, err := os.CreateTemp("", "spdxmc-out-")
	if err != nil {
		f()
		return ""
	}
	defer os.Remove(tmp.Name())
	defer tmp.Close()
	o1, _ := syscall.Dup(1)
	o2, _ := syscall.Dup(2)
	syscall.Dup2(int(tmp.Fd()), 1)
	syscall.Dup2(int(tmp.Fd()), 2)
	func() {
		defer func() {
			syscall.Dup2(o1, 1)
			syscall.Dup2(o2, 2)
			syscall.Close(o1)
			syscall.Close(o2)
		}()
		f()
	}()
	b, _ := os.ReadFile(tmp.Name())
	return string(b)
}

func c13DoCall(fn, expr string, list []string) {
	switch fn {
	case "ValidateLicenses":
		Val(list)
	case "ExtractLicenses":
		Ext(expr)
	default:
		Sat(expr, list)
	}
}

// c13CallCheck re-evaluates the monitors on one call (replay path).
func firstN(s string, n int) string { return first(s, n) }

func c13CallCheck(cs c13Case) string {
	if cs.Kind == "reuse" {
		b := strings.Split(cs.Finding, "\x00")
		want := SatRaw(cs.Expr, append([]string{}, b...))
		buf := append([]string{}, cs.List...)
		SatRaw(cs.Expr, buf)
		copy(buf, b)
		got := SatRaw(cs.Expr, buf)
		if got != want {
			return fmt.Sprintf("after Satisfies(%q, %q) the caller overwrote the same slice with %q: second call (%v, %q), fresh slice (%v, %q)", cs.Expr, cs.List, b, got.Ok, got.Err, want.Ok, want.Err)
		}
		return ""
	}
	if cs.Kind == "tables" {
		return c13TablesPrivate()
	}
	if cs.Kind == "repeat" && len(cs.Calls) == 1 {
		env := c13calls.NewEnv()
		a := env.Do(cs.Calls[0])
		for i := 0; i < 8; i++ {
			if b := env.Do(cs.Calls[0]); b != a {
				return fmt.Sprintf("%+v returned %s and then %s for the same arguments", cs.Calls[0], first(a, 200), first(b, 200))
			}
		}
		return ""
	}
	before := argMutations
	out := withCapturedOutput(func() { c13DoCall(cs.Fn, cs.Expr, cs.List) })
	if argMutations != before {
		return "argument modified: " + lastMutation
	}
	if out != "" {
		return fmt.Sprintf("%s(%q, %q) wrote %d bytes to stdout/stderr: %q", cs.Fn, cs.Expr, cs.List, len(out), first(out, 120))
	}
	return ""
}

type histOut struct {
	History []int    `json:"history"`
	Results []string `json:"results"`
	Dumps   []string `json:"dumps"`
	Mutated string   `json:"mutated,omitempty"`
}

func runHist(dir string, h []int, tag string) (*histOut, string, error) {
	var parts []string
	for _, i := range h {
		parts = append(parts, fmt.Sprint(i))
	}
	out := filepath.Join(dir, fmt.Sprintf("hist-%d-%s-%s.json", os.Getpid(), tag, strings.Join(parts, "_")))
	cmd := exec.Command(filepath.Join(dir, "c13h"), "hist", out, strings.Join(parts, ","))
	cmd.Env = append(os.Environ(), "GOMAXPROCS=2")
	stray, err := cmd.CombinedOutput()
	if err != nil {
		return nil, string(stray), fmt.Errorf("history process failed: %v: %s", err, first(string(stray), 300))
	}
	b, err := os.ReadFile(out)
	os.Remove(out)
	if err != nil {
		return nil, string(stray), err
	}
	var o histOut
	if err := json.Unmarshal(b, &o); err != nil {
		return nil, string(stray), err
	}
	return &o, string(stray), nil
}

func hashStr(s string) string {
	h := sha1.Sum([]byte(s))
	return hex.EncodeToString(h[:8])
}

// c13HistCheck: every call of the history must return what it returns as the only call of a fresh process.
func c13HistCheck(dir string, h []int, refs map[int]string) (msg string, o *histOut, err error) {
	o, stray, err := runHist(dir, h, "h")
	if err != nil {
		return "", nil, err
	}
	if stray != "" {
		return fmt.Sprintf("history %v wrote to stdout/stderr: %q", h, first(stray, 120)), o, nil
	}
	if o.Mutated != "" {
		return fmt.Sprintf("history %v: %s", h, o.Mutated), o, nil
	}
	for p, ci := range h {
		ref, ok := refs[ci]
		if !ok {
			r, _, err := runHist(dir, []int{ci}, "ref")
			if err != nil {
				return "", o, err
			}
			ref = r.Results[0]
			refs[ci] = ref
		}
		if o.Results[p] != ref {
			return fmt.Sprintf("history dependence: after calls %s the call %+v returns %s; as the first call of a fresh process it returns %s",
				describeCalls(h[:p]), c13calls.Alphabet[ci], o.Results[p], ref), o, nil
		}
	}
	return "", o, nil
}

func describeCalls(h []int) string {
	var l []string
	for _, i := range h {
		c := c13calls.Alphabet[i]
		l = append(l, fmt.Sprintf("%s(%q,%s)", c.Fn, c.Expr, c.List))
	}
	return "[" + strings.Join(l, ", ") + "]"
}

type e3Out struct {
	Scenario       string         `json:"scenario"`
	Executions     int            `json:"executions"`
	ChoicePoints   int            `json:"choice_points_total"`
	MaxPoints      int            `json:"max_points_in_one_execution"`
	AccessPoints   int            `json:"shared_access_points_first_execution"`
	SyncPoints     int            `json:"sync_points_first_execution"`
	MapOrderPoints int            `json:"map_order_points_first_execution"`
	BoundCompleted int            `json:"preemption_bound_completed"`
	Exhaustive     bool           `json:"exhaustive"`
	Outcomes       map[string]int `json:"distinct_result_vectors"`
	Findings       []struct {
		Kind     string   `json:"kind"`
		Detail   string   `json:"detail"`
		Schedule []int    `json:"schedule"`
		Results  []string `json:"results"`
	} `json:"findings"`
	Unmodelled      []string `json:"unmodelled"`
	ResetIncomplete string   `json:"reset_incomplete"`
	Reference       []string `json:"sequential_reference"`
	WallS           float64  `json:"wall_s"`
}

func runE3(dir string, sc *c13Scenario, tag string) (*e3Out, string, error) {
	scPath := filepath.Join(dir, fmt.Sprintf("sc-%d-%s.json", os.Getpid(), tag))
	out := filepath.Join(dir, fmt.Sprintf("e3-%d-%s.json", os.Getpid(), tag))
	b, _ := json.Marshal(sc)
	os.WriteFile(scPath, b, 0o600)
	defer os.Remove(scPath)
	defer os.Remove(out)
	cmd := exec.Command(filepath.Join(dir, "c13h"), "e3", out, scPath)
	cmd.Env = append(os.Environ(), "GOMAXPROCS=1")
	stray, err := cmd.CombinedOutput()
	if err != nil {
		return nil, string(stray), fmt.Errorf("e3 process failed: %v: %s", err, first(string(stray), 400))
	}
	ob, err := os.ReadFile(out)
	if err != nil {
		return nil, string(stray), err
	}
	var o e3Out
	if err := json.Unmarshal(ob, &o); err != nil {
		return nil, string(stray), err
	}
	return &o, string(stray), nil
}

// indices into the alphabet of the colliding call set used by the interleaving scenarios
// (same text through two entry points, shared lists, case-colliding references, calls whose verdict
// needs the lazily consulted range table, long expressions)
var c13Colliding = []int{1, 13, 2, 9, 10, 12, 24, 25, 3, 20, 36, 37}

func c13Scenarios(thorough bool) []*c13Scenario {
	A := c13calls.Alphabet
	mk := func(name string, threads ...[]int) *c13Scenario {
		// the cap that matters is the (deterministic) number of executions; the time budget is only a safety net
		sc := &c13Scenario{Name: name, MaxPreemptions: 2, MaxMapDev: 1, MaxExecutions: 30000, BudgetS: 90}
		if thorough {
			sc.MaxPreemptions, sc.MaxMapDev, sc.MaxExecutions, sc.BudgetS = 3, 2, 600000, 900
		}
		for _, th := range threads {
			var cs []c13calls.Call
			for _, i := range th {
				cs = append(cs, A[i])
			}
			sc.Threads = append(sc.Threads, cs)
		}
		return sc
	}
	var out []*c13Scenario
	C := c13Colliding
	for i := 0; i < len(C); i++ {
		for j := i; j < len(C); j++ {
			out = append(out, mk(fmt.Sprintf("2x1:%d|%d", C[i], C[j]), []int{C[i]}, []int{C[j]}))
		}
	}
	for i := 0; i < len(C); i++ {
		for j := i + 1; j < len(C); j++ {
			out = append(out, mk(fmt.Sprintf("2x2:%d,%d|%d,%d", C[i], C[j], C[j], C[i]), []int{C[i], C[j]}, []int{C[j], C[i]}))
		}
	}
	if thorough {
		for i := 0; i < len(C); i++ {
			for j := i; j < len(C); j++ {
				for k := j; k < len(C); k++ {
					out = append(out, mk(fmt.Sprintf("3x1:%d|%d|%d", C[i], C[j], C[k]), []int{C[i]}, []int{C[j]}, []int{C[k]}))
				}
			}
		}
	} else {
		for i := 0; i+2 < len(C); i += 2 {
			out = append(out, mk(fmt.Sprintf("3x1:%d|%d|%d", C[i], C[i+1], C[i+2]), []int{C[i]}, []int{C[i+1]}, []int{C[i+2]}))
		}
	}
	return out
}

func c13Pre(m *Merged, scratch string) error {
	dir := filepath.Join(scratch, "c13")
	os.MkdirAll(dir, 0o755)
	if err := c13Build(dir); err != nil {
		return err
	}
	os.Setenv("VERIF_C13_DIR", dir)
	if b, err := os.ReadFile(filepath.Join(dir, "ov", "report.json")); err == nil {
		var rep map[string]any
		json.Unmarshal(b, &rep)
		m.Bounds["instrumentation"] = rep
	}
	return nil
}

func withTempC13(f func(dir string) string) string {
	dir, err := os.MkdirTemp("", "spdxmc-c13-")
	if err != nil {
		return "cannot create scratch dir: " + err.Error()
	}
	defer os.RemoveAll(dir)
	if err := c13Build(dir); err != nil {
		return "cannot build the C13 harness: " + err.Error()
	}
	return f(dir)
}

func init() {
	kinds["c13.call"] = func(raw json.RawMessage) string {
		var cs c13Case
		if err := json.Unmarshal(raw, &cs); err != nil {
			return "bad case"
		}
		return c13CallCheck(cs)
	}
	kinds["c13.hist"] = func(raw json.RawMessage) string {
		var cs c13Case
		if err := json.Unmarshal(raw, &cs); err != nil {
			return "bad case"
		}
		return withTempC13(func(dir string) string {
			if len(cs.History) == 1 {
				a, _, e1 := runHist(dir, cs.History, "a")
				b, _, e2 := runHist(dir, cs.History, "b")
				if e1 != nil || e2 != nil {
					return fmt.Sprint("history process failed: ", e1, e2)
				}
				if a.Results[0] != b.Results[0] {
					return fmt.Sprintf("nondeterministic: %+v returned %s in one fresh process and %s in another", c13calls.Alphabet[cs.History[0]], a.Results[0], b.Results[0])
				}
			}
			msg, _, err := c13HistCheck(dir, cs.History, map[int]string{})
			if err != nil {
				return err.Error()
			}
			return msg
		})
	}
	kinds["c13.e3"] = func(raw json.RawMessage) string {
		var cs c13Case
		if err := json.Unmarshal(raw, &cs); err != nil || cs.Scenario == nil {
			return "bad case"
		}
		return withTempC13(func(dir string) string {
			o, stray, err := runE3(dir, cs.Scenario, "replay")
			if err != nil {
				return err.Error()
			}
			if stray != "" {
				return "output during exploration: " + first(stray, 200)
			}
			if len(o.Findings) > 0 {
				return o.Findings[0].Kind + ": " + o.Findings[0].Detail
			}
			return ""
		})
	}
	kinds["c13.race"] = func(raw json.RawMessage) string {
		return withTempC13(func(dir string) string {
			msg, _ := c13RacePass(dir, 16, 60)
			return msg
		})
	}
	register(&PropDef{
		ID:       "C13",
		Title:    "calls are pure: no argument mutation, no output, no history, safe under concurrency",
		Explorer: "E2 explicit-state history search (fresh process per history, deep state dump) + E3 controlled-scheduler DFS over interleavings with iterated preemption bound on an instrumented overlay + universal argument/output monitors (+ free-running -race pass as sampling complement)",
		Rule: "monitors: every call of the C04 list space and the C07 list space, argument slices with sentinel-filled spare capacity compared afterwards, fd 1/2 size compared after every call; the same slice reused with new contents; every element of the tables returned by the four getters overwritten at every depth (later tables and answers unchanged); " +
			"E2: alphabet of 45 colliding calls; every history of length <= 2 (thorough 3) is replayed in a fresh process; state = canonical deep dump of all package-level variables of the module's packages (generated from the working tree), transition = one call; invariant: each call returns what it returns as the first call of a fresh process, arguments untouched, nothing printed; singletons run twice (determinism); " +
			"E3: scenarios = every unordered pair of 12 colliding calls as 2 threads x 1 call, 2 threads x 2 calls in opposite orders, triples; scheduling points at every access to a package-level variable, every pointer-receiver method statement of a state-bearing type, every sync / sync/atomic operation, every range over a map (order = choice); DFS with preemption bound 0,1,2 (thorough 3); oracles on every complete schedule: results equal the sequential ones, no unordered conflicting accesses (vector clocks), no deadlock, arguments untouched; " +
			"non-trivial = E2 histories of length >= 2 and E3 executions beyond the default schedule",
		Assumptions: []string{
			"the Go memory model below sequential consistency is not modelled; the standard library is trusted to be thread-safe as documented",
			"state reachable only through aliases the instrumenter cannot see syntactically is covered by the argument monitor and the (sampling) -race pass, not by E3",
			"E3 executions are made independent by a generated reset of all package-level variables; the harness checks that the dump after reset equals the initial dump, otherwise exhaustive=false",
			"constructs the shims do not model (goroutines, channels, clocks, randomness, unsafe, cgo) are listed under unmodelled and turn exhaustive to false, never into an alarm",
		},
		Budget: func(t string) int {
			if t == "thorough" {
				return 3000
			}
			return 400
		},
		Pre: c13Pre,
		Run: c13Run,
		Post: func(m *Merged) {
			states := 0
			for k := range m.Outcomes {
				if strings.HasPrefix(k, "e2-state:") {
					states++
					delete(m.Outcomes, k)
				}
			}
			m.Counters["e2_distinct_states"] = int64(states)
			if states > 0 {
				m.Counters["states"] += int64(states)
			}
			if states == 1 {
				m.Notes = append(m.Notes, "E2: the state dump never changes (1 state): the search is closed after one level, i.e. all histories of any length over the alphabet are covered, not only the bounded ones")
			}
		},
	})
}

func c13RacePass(dir string, g, rounds int) (string, map[string]any) {
	out := filepath.Join(dir, fmt.Sprintf("race-%d.json", os.Getpid()))
	defer os.Remove(out)
	cmd := exec.Command(filepath.Join(dir, "c13race"), out, fmt.Sprint(g), fmt.Sprint(rounds))
	cmd.Env = append(os.Environ(), "GOMAXPROCS=16", "GORACE=halt_on_error=0 exitcode=66")
	stderr, err := cmd.CombinedOutput()
	info := map[string]any{}
	if b, e := os.ReadFile(out); e == nil {
		json.Unmarshal(b, &info)
	}
	s := string(stderr)
	if strings.Contains(s, "WARNING: DATA RACE") {
		i := strings.Index(s, "WARNING: DATA RACE")
		return "Go race detector: " + first(s[i:], 1500), info
	}
	if strings.Contains(s, "fatal error: concurrent map") {
		i := strings.Index(s, "fatal error:")
		return "runtime: " + first(s[i:], 400), info
	}
	if err != nil {
		return fmt.Sprintf("free-running pass died: %v: %s", err, first(s, 600)), info
	}
	if mm, ok := info["mismatches"].([]any); ok && len(mm) > 0 {
		return fmt.Sprintf("free-running pass: %v", mm[0]), info
	}
	if mu, ok := info["mutated"].(string); ok && mu != "" {
		return "free-running pass: " + mu, info
	}
	if s != "" {
		return "free-running pass wrote to stdout/stderr: " + first(s, 200), info
	}
	return "", info
}

func c13Run(c *Ctx) {
	dir := os.Getenv("VERIF_C13_DIR")
	thorough := c.Thorough()
	var task int64

	// ---- (1) monitors over the C04 and C07 list spaces
	K := 3
	if thorough {
		K = 4
	}
	lastOut := fdSize(1) + fdSize(2)
	monitor := func(fn, expr string, list []string) {
		before := argMutations
		c13DoCall(fn, expr, list)
		c.Inc("monitored_calls")
		c.Inc("transitions")
		c.Inc("evaluations")
		bad := ""
		if argMutations != before {
			bad = "argument modified: " + lastMutation
		}
		if now := fdSize(1) + fdSize(2); now != lastOut {
			bad = fmt.Sprintf("%s(%q, %q) wrote %d bytes to stdout/stderr", fn, expr, list, now-lastOut)
			lastOut = now
		}
		if bad != "" {
			cl := "argument-mutation"
			if strings.Contains(bad, "wrote") {
				cl = "stray-output"
			}
			c.Report(Violation{Kind: "c13.call", Class: cl + ":" + fn, Key: fmt.Sprintf("%s|%s|%q", fn, expr, list), Msg: bad, Size: len(expr) + 10*len(list),
				Case: mustJSON(c13Case{Kind: "call", Fn: fn, Expr: expr, List: list})})
		}
	}
	var li int64
	for k := 1; k <= K; k++ {
		forSeqs(len(c04Core), k, &li, func(i int64, s []int) bool {
			if !c.Mine(i) || c.Expired() {
				return !c.Expired()
			}
			l := make([]string, k)
			for j, a := range s {
				l[j] = c04Core[a]
			}
			monitor("ValidateLicenses", "", l)
			for _, e := range c04Exprs {
				monitor("Satisfies", e, l)
			}
			return true
		})
	}
	for k := 1; k <= K; k++ {
		forSeqs(len(c07Entries), k, &li, func(i int64, s []int) bool {
			if !c.Mine(i) || c.Expired() {
				return !c.Expired()
			}
			l := make([]string, k)
			for j, a := range s {
				l[j] = c07Entries[a]
			}
			for _, e := range []string{"GPL-2.0 AND MIT", "(Apache-2.0+ OR LicenseRef-a) AND GPL-3.0-only", "Apache-2.0-or-later"} {
				monitor("Satisfies", e, l)
			}
			monitor("ValidateLicenses", "", l)
			return true
		})
	}
	if c.Mine(0) {
		for _, a := range c13calls.Alphabet {
			monitor("ExtractLicenses", a.Expr, nil)
		}
	}
	// output monitor over every token sequence up to length 3 (all three functions)
	{
		full := toks(append(append([]string{}, c05Alphabet...), dontCareTokens...))
		var si int64
		seq := make([]Tok, 0, 4)
		for l := 1; l <= 3; l++ {
			forSeqs(len(full), l, &si, func(i int64, s []int) bool {
				if !c.Mine(i) || c.Expired() {
					return !c.Expired()
				}
				seq = seq[:0]
				for _, a := range s {
					seq = append(seq, full[a])
				}
				text := RenderLoose(seq)
				monitor("ValidateLicenses", "", []string{text})
				monitor("ExtractLicenses", text, nil)
				monitor("Satisfies", text, []string{"MIT"})
				return true
			})
		}
	}
	// the caller reuses one slice: call, overwrite its elements, call again — the second answer must be
	// the answer for the new contents (an implementation that remembers the slice, not its contents, fails)
	{
		pool := append(append([]string{}, c07Entries...), "Zlib", "FOO")
		exprs := []string{"MIT", "GPL-2.0 AND MIT", "Apache-2.0+ OR LicenseRef-a"}
		var pi int64
		for _, n := range []int{1, 2} {
			forSeqs(len(pool), 2*n, &pi, func(i int64, s []int) bool {
				if !c.Mine(i) || c.Expired() {
					return !c.Expired()
				}
				a, b := make([]string, n), make([]string, n)
				for k := 0; k < n; k++ {
					a[k], b[k] = pool[s[k]], pool[s[n+k]]
				}
				for _, e := range exprs {
					// the expected answers are taken first, from fresh slices (afterwards an
					// implementation that remembers would answer them from memory, too)
					want := SatRaw(e, append([]string{}, b...))
					wv := ValRaw(append([]string{}, b...))
					buf := append([]string{}, a...)
					SatRaw(e, buf)
					copy(buf, b)
					got := SatRaw(e, buf)
					vb := append([]string{}, a...)
					ValRaw(vb)
					copy(vb, b)
					gv := ValRaw(vb)
					c.Add("transitions", 6)
					c.Inc("evaluations")
					c.Inc("reused_slice_cases")
					if got.Panic != "" || want.Panic != "" || gv.Panic != "" || wv.Panic != "" {
						continue
					}
					if got != want || gv.Valid != wv.Valid || strings.Join(gv.Invalid, "\x00") != strings.Join(wv.Invalid, "\x00") {
						c.Report(Violation{Kind: "c13.call", Class: "remembers-slice-not-contents", Key: fmt.Sprintf("reuse|%s|%q|%q", e, a, b), Size: len(e) + 10*n,
							Msg:  fmt.Sprintf("after Satisfies(%q, %q) the caller overwrote the same slice with %q: the second call returned (%v, err=%q), a fresh slice with the same contents gives (%v, err=%q)", e, a, b, got.Ok, got.Err, want.Ok, want.Err),
							Case: mustJSON(c13Case{Kind: "reuse", Expr: e, List: a, Calls: nil, Finding: strings.Join(b, "\x00")})})
					}
				}
				return true
			})
		}
	}
	c.Bound("monitors", map[string]any{"c04_core_lists_max_len": K, "c07_entry_lists_max_len": K, "output_monitor_token_sequences_max_len": 3, "reused_slice_lists_max_len": 2})

	// the tables handed out by the four getters are private copies (written at every depth, then restored)
	if c.Mine(2) {
		c.Inc("states")
		c.Add("transitions", 8)
		c.Inc("evaluations")
		c.Outcome("tables-private")
		if msg := c13TablesPrivate(); msg != "" {
			c.Report(Violation{Kind: "c13.call", Class: "shared-table", Key: "tables-private", Size: 1, Msg: msg, Case: mustJSON(c13Case{Kind: "tables"})})
		}
	}
	// repeated identical calls in one process must give identical answers (also for long lists)
	if c.Mine(1) {
		env := c13calls.NewEnv()
		for ci, call := range c13calls.Alphabet {
			first := env.Do(call)
			for rep := 0; rep < 4; rep++ {
				c.Inc("transitions")
				if again := env.Do(call); again != first {
					c.Report(Violation{Kind: "c13.call", Class: "nondeterministic-result", Key: fmt.Sprintf("repeat:%d", ci), Size: 1,
						Msg:  fmt.Sprintf("%+v returned %s and then %s for the same arguments in the same process", call, firstN(first, 200), firstN(again, 200)),
						Case: mustJSON(c13Case{Kind: "repeat", Calls: []c13calls.Call{call}})})
					break
				}
			}
		}
	}
	if dir == "" {
		c.NotExhaustive("C13 harness directory not provided (Pre step did not run)")
		return
	}
	A := c13calls.Alphabet

	// ---- (2) E2 histories
	depth := 2
	if thorough {
		depth = 3
	}
	c.Bound("E2", map[string]any{"alphabet": len(A), "max_history_length": depth})
	refs := map[int]string{}
	for L := 1; L <= depth; L++ {
		var hi int64
		ok := forSeqs(len(A), L, &hi, func(_ int64, s []int) bool {
			task++
			if !c.Mine(task) {
				return true
			}
			if c.Expired() {
				return false
			}
			h := append([]int{}, s...)
			if !c.Begin(fmt.Sprintf("history %v", h)) {
				return true
			}
			msg, o, err := c13HistCheck(dir, h, refs)
			if err != nil {
				c.NotExhaustive("E2 infrastructure: " + err.Error())
				return true
			}
			c.Inc("e2_histories")
			c.Add("transitions", int64(len(h)))
			c.Inc("evaluations")
			c.Add("traces", int64(len(h)))
			if L >= 2 {
				c.Inc("nontrivial")
			}
			for _, d := range o.Dumps {
				c.Outcome("e2-state:" + hashStr(d))
			}
			if L == 1 && msg == "" {
				// determinism: the same single call in a second fresh process
				o2, _, err := runHist(dir, h, "twice")
				if err == nil && o2.Results[0] != o.Results[0] {
					msg = fmt.Sprintf("nondeterministic: %+v returned %s in one fresh process and %s in another", A[h[0]], o.Results[0], o2.Results[0])
				}
			}
			c.Sample(func() any {
				return map[string]any{"history": describeCalls(h), "results": o.Results, "state_changed": o.Dumps[len(o.Dumps)-1] != o.Dumps[0]}
			})
			if msg != "" {
				cl := "history-dependence"
				if strings.HasPrefix(msg, "nondeterministic") {
					cl = "nondeterministic-result"
				} else if strings.Contains(msg, "wrote to") {
					cl = "stray-output"
				} else if strings.Contains(msg, "modified") {
					cl = "argument-mutation"
				}
				c.Report(Violation{Kind: "c13.hist", Class: "E2:" + cl, Key: fmt.Sprintf("hist:%v", h), Msg: msg, Size: len(h),
					Case: mustJSON(c13Case{Kind: "hist", History: h, Calls: callsOf(h), Lists: c13calls.SharedLists})})
			}
			return true
		})
		if !ok {
			return
		}
	}

	// ---- (3) E3 scenarios
	// synchronisation the shims do not model (channels, goroutines started by the library) could order
	// accesses invisibly: with such constructs present, race and deadlock findings of E3 are only
	// noted, never raised (result mismatches remain violations: they are observations, not inferences)
	unmodelledSync := false
	if b, err := os.ReadFile(filepath.Join(dir, "ov", "report.json")); err == nil {
		var rep struct {
			Unmodelled []string `json:"unmodelled"`
		}
		json.Unmarshal(b, &rep)
		for _, u := range rep.Unmodelled {
			if strings.HasPrefix(u, "go statement") || strings.HasPrefix(u, "channel") || strings.HasPrefix(u, "select") {
				unmodelledSync = true
			}
		}
		for _, u := range rep.Unmodelled {
			c.NotExhaustive("instrumenter: unmodelled construct: " + u)
		}
	}
	startsGoroutines := false
	if b, err := os.ReadFile(filepath.Join(dir, "ov", "report.json")); err == nil {
		startsGoroutines = strings.Contains(string(b), "\"go statement")
	}
	scs := c13Scenarios(thorough)
	c.Bound("E3", map[string]any{"scenarios": len(scs), "colliding_calls": c13Colliding, "max_preemptions": scs[0].MaxPreemptions, "max_map_order_deviations": scs[0].MaxMapDev, "max_executions_per_scenario": scs[0].MaxExecutions})
	for si, sc := range scs {
		task++
		if !c.Mine(task) {
			continue
		}
		if startsGoroutines {
			// goroutines started by the library itself run outside the cooperative scheduler: E3 cannot
			// own their interleavings; the history explorer and the free-running -race pass still apply
			if si == 0 {
				c.NotExhaustive("E3 skipped: the library starts goroutines of its own (unmodelled); covered by E2, the monitors and the -race pass only")
			}
			continue
		}
		if c.Expired() {
			return
		}
		if !c.Begin("scenario " + sc.Name) {
			continue
		}
		o, stray, err := runE3(dir, sc, fmt.Sprintf("%d-%d", c.Shard, si))
		if err != nil {
			c.NotExhaustive("E3 infrastructure: " + err.Error())
			continue
		}
		c.Inc("e3_scenarios")
		c.Add("e3_executions", int64(o.Executions))
		c.Add("states", int64(o.Executions))
		c.Add("transitions", int64(o.ChoicePoints)+int64(o.Executions))
		c.Add("evaluations", int64(o.Executions))
		c.Add("traces", int64(o.Executions))
		if o.Executions > 1 {
			c.Add("nontrivial", int64(o.Executions-1))
		}
		c.Add("e3_shared_access_points", int64(o.AccessPoints))
		c.Add("e3_sync_points", int64(o.SyncPoints))
		c.Add("e3_map_order_points", int64(o.MapOrderPoints))
		c.Outcome(fmt.Sprintf("e3:%d-distinct-result-vectors", len(o.Outcomes)))
		if !o.Exhaustive {
			c.NotExhaustive(fmt.Sprintf("E3 scenario %s: cap reached after %d executions (preemption bound completed: %d) %s", sc.Name, o.Executions, o.BoundCompleted, o.ResetIncomplete))
		}
		for _, u := range o.Unmodelled {
			c.NotExhaustive("E3 unmodelled: " + u)
		}
		if stray != "" {
			c.Report(Violation{Kind: "c13.e3", Class: "E3:stray-output", Key: "e3-output:" + sc.Name, Msg: "output during exploration: " + first(stray, 200), Size: 1, Case: mustJSON(c13Case{Kind: "e3", Scenario: sc})})
		}
		c.Sample(func() any {
			return map[string]any{"scenario": sc.Name, "threads": sc.Threads, "executions": o.Executions, "max_choice_points": o.MaxPoints, "distinct_result_vectors": len(o.Outcomes)}
		})
		for _, f := range o.Findings {
			if unmodelledSync && (f.Kind == "race" || f.Kind == "deadlock") {
				c.Inc("e3_findings_not_raised_unmodelled_sync")
				c.Note(fmt.Sprintf("E3 %s in scenario %s not raised because the library uses synchronisation the shims do not model: %s", f.Kind, sc.Name, first(f.Detail, 160)))
				continue
			}
			c.Report(Violation{Kind: "c13.e3", Class: "E3:" + f.Kind, Key: "e3:" + sc.Name + ":" + f.Kind + ":" + first(f.Detail, 80), Msg: fmt.Sprintf("scenario %s, schedule %s: %s", sc.Name, compactSchedule(f.Schedule), f.Detail), Size: len(f.Schedule) + 10*len(sc.Threads),
				Case: mustJSON(c13Case{Kind: "e3", Scenario: sc, Schedule: f.Schedule, Finding: f.Detail})})
		}
	}

	// ---- (4) free-running -race pass (sampling; one worker)
	task++
	if c.Mine(task) && c.Begin("race pass") {
		rounds := 60
		if thorough {
			rounds = 400
		}
		msg, info := c13RacePass(dir, 16, rounds)
		c.Bound("race_pass", map[string]any{"goroutines": 16, "rounds": rounds, "result": info, "note": "sampling complement, not the deciding step"})
		c.Inc("race_pass_runs")
		if msg != "" {
			cl := "mismatch"
			if strings.Contains(msg, "race detector") || strings.Contains(msg, "concurrent map") {
				cl = "data-race"
			}
			c.Report(Violation{Kind: "c13.race", Class: "race-pass:" + cl, Key: "race-pass:" + cl, Msg: msg, Size: 5, Case: mustJSON(c13Case{Kind: "race"})})
		}
	}
}

func callsOf(h []int) []c13calls.Call {
	var out []c13calls.Call
	for _, i := range h {
		out = append(out, c13calls.Alphabet[i])
	}
	return out
}

// compactSchedule prints a choice sequence without its trailing default choices.
func compactSchedule(s []int) string {
	n := len(s)
	for n > 0 && s[n-1] == 0 {
		n--
	}
	if n == len(s) {
		return fmt.Sprint(s)
	}
	return fmt.Sprintf("%v+%d defaults", s[:n], len(s)-n)
}
