package main

// C05 — the accepted language is exactly the documented grammar.
// Explorer E1: every token sequence up to length L over a token alphabet, in several renderings,
// real ValidateLicenses verdict vs. the reference recogniser R-gram.

import (
	"encoding/json"
	"fmt"
	"strings"
)

var c05Alphabet = []string{
	"MIT", "mit", "GPL-2.0", "GPL-2.0-only", "GPL-2.0-or-later", "MIT-only", "Apache-2.0-or-later",
	"Bison-exception-2.2", "FOO", "and", "LicenseRef-x", "DocumentRef-d", ":", "(", ")", "AND", "OR",
	"WITH", "+", " +",
}

// don't-care tokens: enumerated (C03 cares about them) but never judged here
var dontCareTokens = []string{"eCos-2.0-only", "eCos-2.0-or-later", "Bison-exception-2.2-only", "Bison-exception-2.2-or-later"}

var c05Structural = []string{"MIT", "Apache-2.0-or-later", "LicenseRef-x", "(", ")", "AND", "OR", "+"}
var c05WithAlphabet = []string{"MIT", "Apache-2.0-or-later", "GPL-2.0", "WITH", "Bison-exception-2.2", "+", "(", ")", "AND"}

func toks(texts []string) []Tok {
	out := make([]Tok, len(texts))
	for i, s := range texts {
		out[i] = OpTok(s)
	}
	return out
}

// forSeqs enumerates every sequence of exactly L symbols over K symbols; idx is the running index.
func forSeqs(K, L int, idx *int64, f func(i int64, seq []int) bool) bool {
	seq := make([]int, L)
	for {
		if !f(*idx, seq) {
			return false
		}
		*idx++
		p := L - 1
		for p >= 0 {
			seq[p]++
			if seq[p] < K {
				break
			}
			seq[p] = 0
			p--
		}
		if p < 0 {
			return true
		}
	}
}

type c05Case struct {
	Tokens []string `json:"tokens"`
	Render string   `json:"render"`
	Text   string   `json:"text"`
}

func renderBy(name string, seq []Tok) string {
	switch name {
	case "tight":
		return RenderTight(seq)
	case "padded":
		return RenderPadded(seq)
	}
	return RenderLoose(seq)
}

func tokTexts(seq []Tok) []string {
	out := make([]string, len(seq))
	for i, t := range seq {
		out[i] = t.Text
		if t.K == TSPlus {
			out[i] = " +"
		}
	}
	return out
}

// c05Check evaluates the oracle on one rendered sequence. Returns "" when it holds.
func c05Check(seq []Tok, text string) (msg string, outcome string) {
	want, dc := Derives(seq)
	if dc {
		return "", "dontcare"
	}
	got := Valid1(text)
	if got < 0 {
		return "", "panic"
	}
	if want && got == 0 {
		return fmt.Sprintf("grammar derives %q but ValidateLicenses rejects it", text), "mismatch"
	}
	if !want && got == 1 {
		return fmt.Sprintf("grammar does not derive %q but ValidateLicenses accepts it", text), "mismatch"
	}
	if want {
		return "", "valid"
	}
	return "", "invalid"
}

func init() {
	kinds["c05.seq"] = func(raw json.RawMessage) string {
		var cs c05Case
		if err := json.Unmarshal(raw, &cs); err != nil {
			return "bad case: " + err.Error()
		}
		seq := toks(cs.Tokens)
		msg, _ := c05Check(seq, renderBy(cs.Render, seq))
		return msg
	}
	register(&PropDef{
		ID:       "C05",
		Title:    "accepted language = documented grammar",
		Explorer: "E1 bounded-exhaustive token-sequence enumeration vs reference recogniser",
		Rule: "every token sequence of length <= L over the token alphabet (bounds.alphabets), rendered loose / tight (and padded for short ones); " +
			"each rendered string is one state, one ValidateLicenses call one transition; non-trivial = distinct rendered strings that the reference grammar derives " +
			"(valid sentences, ~1-2% of the space) plus distinct strings that are one token away from valid are not separately counted; distinct by construction (sequence x rendering)",
		Assumptions: []string{
			"reference recogniser R-gram (ref.go, ~60 lines) is the documented grammar of C05",
			"token kinds come from the id lists of the built tree; deprecated/exception ids carrying -only/-or-later are don't-care",
			"ids outside the token alphabet are covered by C02/C08/C09/C12, not here",
		},
		Run: c05Run,
	})
}

func c05Run(c *Ctx) {
	type sweep struct {
		name    string
		alpha   []string
		maxL    int
		renders []string
		padUpTo int
	}
	var sweeps []sweep
	full := append(append([]string{}, c05Alphabet...), dontCareTokens...)
	if c.Thorough() {
		sweeps = []sweep{
			{"full", full, 6, []string{"loose", "tight"}, 3},
			{"structural", c05Structural, 9, []string{"loose", "tight"}, 0},
			{"with", c05WithAlphabet, 8, []string{"loose", "tight"}, 0},
		}
	} else {
		sweeps = []sweep{
			{"full", full, 5, []string{"loose", "tight"}, 2},
			{"structural", c05Structural, 7, []string{"loose", "tight"}, 0},
			{"with", c05WithAlphabet, 6, []string{"loose", "tight"}, 0},
		}
	}
	bounds := map[string]any{}
	var idx int64
	for _, sw := range sweeps {
		alpha := toks(sw.alpha)
		bounds[sw.name] = map[string]any{"alphabet": sw.alpha, "max_len": sw.maxL, "renderings": sw.renders, "padded_up_to_len": sw.padUpTo}
		for L := 1; L <= sw.maxL; L++ {
			seq := make([]Tok, L)
			done := forSeqs(len(alpha), L, &idx, func(i int64, s []int) bool {
				if !c.Mine(i) {
					return true
				}
				if c.Expired() {
					return false
				}
				for k, a := range s {
					seq[k] = alpha[a]
				}
				rs := sw.renders
				if L <= sw.padUpTo {
					rs = append(append([]string{}, rs...), "padded")
				}
				c.Inc("sequences")
				loose := ""
				for _, rn := range rs {
					text := renderBy(rn, seq)
					if rn == "loose" {
						loose = text
					} else if text == loose {
						continue // same string as the loose rendering: not a distinct state
					}
					if !c.Begin(text) {
						continue
					}
					msg, out := c05Check(seq, text)
					c.Inc("states")
					c.Inc("transitions")
					c.Inc("evaluations")
					c.Outcome(out)
					switch out {
					case "valid":
						c.Inc("nontrivial")
						c.Inc("traces")
						c.Sample(func() any { return map[string]any{"text": text, "grammar": "derives", "impl": "valid"} })
					case "invalid":
						c.Inc("traces")
					case "dontcare":
						c.Inc("skipped_dontcare")
					case "panic":
						c.Inc("skipped_panic")
					}
					if msg != "" {
						dir := "rejects-valid"
						if strings.Contains(msg, "accepts") {
							dir = "accepts-invalid"
						}
						c.Report(Violation{Kind: "c05.seq", Class: fmt.Sprintf("%s/len%d", dir, L), Key: text, Msg: msg, Size: len(text),
							Case:   mustJSON(c05Case{Tokens: tokTexts(seq), Render: rn, Text: text}),
							GoTest: fmt.Sprintf("ok, _ := spdxexp.ValidateLicenses([]string{%q}) // grammar says valid=%v", text, dir == "rejects-valid")})
					}
				}
				return true
			})
			if !done {
				bounds[sw.name+"_stopped_in_len"] = L
				break
			}
		}
	}
	for k, v := range bounds {
		c.Bound(k, v)
	}
}
