package main

// C05 — the accepted language is exactly the documented grammar.
// Explorer E1: every token sequence up to length L over a token alphabet, in several renderings,
// real ValidateLicenses verdict vs. the reference recogniser R-gram.

import (
	"encoding/json"
	"fmt"
	"strings"
)

var c05Alphabet = []string{
	"MIT", "mit", "GPL-2.0", "GPL-2.0-only", "GPL-2.0-or-later", "MIT-only", "Apache-2.0-or-later",
	"Bison-exception-2.2", "FOO", "and", "LicenseRef-x", "DocumentRef-d", ":", "(", ")", "AND", "OR",
	"WITH", "+", " +",
}

// don't-care tokens: enumerated (C03 cares about them) but never judged here
var dontCareTokens = []string{"eCos-2.0-only", "eCos-2.0-or-later", "Bison-exception-2.2-only", "Bison-exception-2.2-or-later"}

var c05Structural = []string{"MIT", "Apache-2.0-or-later", "LicenseRef-x", "(", ")", "AND", "OR", "+"}

// identifiers whose name is an operator keyword (a parser that looks at a token's text but not its kind)
var c05KeywordNames = []string{"MIT", "LicenseRef-OR", "LicenseRef-AND", "LicenseRef-WITH", "DocumentRef-OR", ":", "OR", "AND", "WITH", "Bison-exception-2.2", "(", ")"}

var c05WithAlphabet = []string{"MIT", "Apache-2.0-or-later", "GPL-2.0", "WITH", "Bison-exception-2.2", "+", "(", ")", "AND"}

func toks(texts []string) []Tok {
	out := make([]Tok, len(texts))
	for i, s := range texts {
		out[i] = OpTok(s)
	}
	return out
}

// forSeqs enumerates every sequence of exactly L symbols over K symbols; idx is the running index.
func forSeqs(K, L int, idx *int64, f func(i int64, seq []int) bool) bool {
	seq := make([]int, L)
	for {
		if !f(*idx, seq) {
			return false
		}
		*idx++
		p := L - 1
		for p >= 0 {
			seq[p]++
			if seq[p] < K {
				break
			}
			seq[p] = 0
			p--
		}
		if p < 0 {
			return true
		}
	}
}

type c05Case struct {
	Tokens []string `json:"tokens"`
	Render string   `json:"render"`
	Text   string   `json:"text"`
}

func renderBy(name string, seq []Tok) string {
	switch name {
	case "tight":
		return RenderTight(seq)
	case "padded":
		return RenderPadded(seq)
	case "glued":
		return RenderGlued(seq)
	}
	return RenderLoose(seq)
}

func tokTexts(seq []Tok) []string {
	out := make([]string, len(seq))
	for i, t := range seq {
		out[i] = t.Text
		if t.K == TSPlus {
			out[i] = " +"
		}
	}
	return out
}

// c05Check evaluates the oracle on one rendered sequence. Returns "" when it holds.
func c05Check(seq []Tok, text string) (msg string, outcome string) {
	want, dc := Derives(seq)
	if dc {
		return "", "dontcare"
	}
	got := Valid1(text)
	if got < 0 {
		return "", "panic"
	}
	if want && got == 0 {
		return fmt.Sprintf("grammar derives %q but ValidateLicenses rejects it", text), "mismatch"
	}
	if !want && got == 1 {
		return fmt.Sprintf("grammar does not derive %q but ValidateLicenses accepts it", text), "mismatch"
	}
	if want {
		return "", "valid"
	}
	return "", "invalid"
}

func init() {
	kinds["c05.charset"] = func(raw json.RawMessage) string {
		var cs struct {
			Text string `json:"text"`
			Want bool   `json:"want"`
			Why  string `json:"why"`
		}
		if err := json.Unmarshal(raw, &cs); err != nil {
			return "bad case"
		}
		if got := Valid1(cs.Text); got >= 0 && (got == 1) != cs.Want {
			return fmt.Sprintf("ValidateLicenses([%q]) = %v, expected %v: %s", cs.Text, got == 1, cs.Want, cs.Why)
		}
		return ""
	}
	kinds["c05.seq"] = func(raw json.RawMessage) string {
		var cs c05Case
		if err := json.Unmarshal(raw, &cs); err != nil {
			return "bad case: " + err.Error()
		}
		seq := toks(cs.Tokens)
		msg, _ := c05Check(seq, renderBy(cs.Render, seq))
		return msg
	}
	register(&PropDef{
		ID:       "C05",
		Title:    "accepted language = documented grammar",
		Explorer: "E1 bounded-exhaustive token-sequence enumeration vs reference recogniser",
		Rule: "every token sequence of length <= L over the token alphabet (bounds.alphabets), rendered loose / tight (and padded for short ones); " +
			"each rendered string is one state, one ValidateLicenses call one transition; non-trivial = distinct rendered strings that the reference grammar derives " +
			"(valid sentences, ~1-2% of the space) plus distinct strings that are one token away from valid are not separately counted; distinct by construction (sequence x rendering)",
		Assumptions: []string{
			"reference recogniser R-gram (ref.go, ~60 lines) is the documented grammar of C05",
			"token kinds come from the id lists of the built tree; deprecated/exception ids carrying -only/-or-later are don't-care",
			"ids outside the token alphabet are covered by C02/C08/C09/C12, not here",
		},
		Run: c05Run,
	})
}

func c05Run(c *Ctx) {
	type sweep struct {
		name    string
		alpha   []string
		maxL    int
		renders []string
		padUpTo int
	}
	var sweeps []sweep
	full := append(append([]string{}, c05Alphabet...), dontCareTokens...)
	if c.Thorough() {
		sweeps = []sweep{
			{"full", full, 6, []string{"loose", "tight"}, 3},
			{"keyword-names", c05KeywordNames, 6, []string{"loose", "tight"}, 0},
			{"structural", c05Structural, 9, []string{"loose", "tight"}, 0},
			{"with", c05WithAlphabet, 8, []string{"loose", "tight"}, 0},
		}
	} else {
		sweeps = []sweep{
			{"full", full, 5, []string{"loose", "tight"}, 2},
			{"keyword-names", c05KeywordNames, 5, []string{"loose"}, 0},
			{"structural", c05Structural, 7, []string{"loose", "tight"}, 0},
			{"with", c05WithAlphabet, 6, []string{"loose", "tight"}, 0},
		}
	}
	bounds := map[string]any{}
	var idx int64
	for _, sw := range sweeps {
		alpha := toks(sw.alpha)
		bounds[sw.name] = map[string]any{"alphabet": sw.alpha, "max_len": sw.maxL, "renderings": sw.renders, "padded_up_to_len": sw.padUpTo}
		for L := 1; L <= sw.maxL; L++ {
			seq := make([]Tok, L)
			done := forSeqs(len(alpha), L, &idx, func(i int64, s []int) bool {
				if !c.Mine(i) {
					return true
				}
				if c.Expired() {
					return false
				}
				for k, a := range s {
					seq[k] = alpha[a]
				}
				rs := sw.renders
				if L <= sw.padUpTo {
					rs = append(append([]string{}, rs...), "padded")
				}
				c.Inc("sequences")
				loose := ""
				for _, rn := range rs {
					text := renderBy(rn, seq)
					if rn == "loose" {
						loose = text
					} else if text == loose {
						continue // same string as the loose rendering: not a distinct state
					}
					if !c.Begin(text) {
						continue
					}
					msg, out := c05Check(seq, text)
					c.Inc("states")
					c.Inc("transitions")
					c.Inc("evaluations")
					c.Outcome(out)
					switch out {
					case "valid":
						c.Inc("nontrivial")
						c.Inc("traces")
						c.Sample(func() any { return map[string]any{"text": text, "grammar": "derives", "impl": "valid"} })
					case "invalid":
						c.Inc("traces")
					case "dontcare":
						c.Inc("skipped_dontcare")
					case "panic":
						c.Inc("skipped_panic")
					}
					if msg != "" {
						dir := "rejects-valid"
						if strings.Contains(msg, "accepts") {
							dir = "accepts-invalid"
						}
						c.Report(Violation{Kind: "c05.seq", Class: fmt.Sprintf("%s/len%d", dir, L), Key: text, Msg: msg, Size: len(text),
							Case:   mustJSON(c05Case{Tokens: tokTexts(seq), Render: rn, Text: text}),
							GoTest: fmt.Sprintf("ok, _ := spdxexp.ValidateLicenses([]string{%q}) // grammar says valid=%v", text, dir == "rejects-valid")})
					}
				}
				return true
			})
			if !done {
				bounds[sw.name+"_stopped_in_len"] = L
				break
			}
		}
	}
	for k, v := range bounds {
		c.Bound(k, v)
	}
	c05Long(c)
	c05AllIDs(c)
	c05Charset(c)
}

// c05Charset: an identifier is 1*(ALPHA / DIGIT / "-" / ".") — ASCII only. Every byte value and a set
// of non-ASCII letters / digits (including ones that case-fold onto ASCII letters) is put inside the
// id of a LicenseRef, a DocumentRef and a listed license id.
func c05Charset(c *Ctx) {
	if !c.Mine(0) {
		return
	}
	okByte := func(b byte) bool {
		return (b >= 'a' && b <= 'z') || (b >= 'A' && b <= 'Z') || (b >= '0' && b <= '9') || b == '-' || b == '.'
	}
	judge := func(text string, want bool, why string) {
		if !c.FirstTime("charset\x00"+text) || !c.Begin(text) {
			return
		}
		got := Valid1(text)
		c.Inc("states")
		c.Inc("transitions")
		c.Inc("evaluations")
		c.Inc("charset_cases")
		if got < 0 {
			c.Inc("skipped_panic")
			return
		}
		c.Inc("traces")
		c.Inc("nontrivial")
		c.Outcome(fmt.Sprintf("charset:valid=%v", got == 1))
		if (got == 1) != want {
			c.Report(Violation{Kind: "c05.charset", Class: "charset", Key: "charset:" + text, Size: len(text),
				Msg:  fmt.Sprintf("ValidateLicenses([%q]) = %v, expected %v: %s", text, got == 1, want, why),
				Case: mustJSON(map[string]any{"text": text, "want": want, "why": why})})
		}
	}
	for b := 0; b < 256; b++ {
		ch := string([]byte{byte(b)})
		valid := okByte(byte(b))
		judge("LicenseRef-a"+ch+"b", valid, "identifier characters are ASCII letters, digits, '-' and '.'")
		judge("DocumentRef-a"+ch+"b:LicenseRef-x", valid, "identifier characters are ASCII letters, digits, '-' and '.'")
		if b >= 0x80 {
			judge("MIT"+ch, false, "a non-ASCII byte cannot be part of or follow a license id")
			judge(ch+"MIT", false, "a non-ASCII byte cannot precede a license id")
		}
	}
	for _, r := range []string{"\u00e9", "\u03b1", "\u017f", "\u212a", "\u0663", "\uff21", "\u0131", "\u0130", "\u01c5", "\u00a0", "\u2003"} {
		judge("LicenseRef-caf"+r, false, "non-ASCII letters and digits are not identifier characters")
		judge("LicenseRef-"+r, false, "non-ASCII letters and digits are not identifier characters")
		judge("DocumentRef-"+r+":LicenseRef-x", false, "non-ASCII letters and digits are not identifier characters")
		judge("MIT AND LicenseRef-x"+r+"y", false, "non-ASCII letters and digits are not identifier characters")
	}
	// spellings that only equal a listed id under Unicode case folding (ſ folds to s, the Kelvin sign to k)
	folds := map[string]string{"s": "\u017f", "S": "\u017f", "k": "\u212a", "K": "\u212a"} // LATIN SMALL LETTER LONG S, KELVIN SIGN
	t := T()
	for _, id := range append(t.AllLicenseIDs(), t.Exceptions...) {
		for i := 0; i < len(id); i++ {
			if f, ok := folds[id[i:i+1]]; ok {
				v := id[:i] + f + id[i+1:]
				judge(v, false, "only ASCII case variants of a listed id are the listed id")
				judge("MIT WITH "+v, false, "only ASCII case variants of a listed id are the listed id")
				break
			}
		}
	}
	c.Bound("charset", "every byte value inside LicenseRef / DocumentRef ids, non-ASCII bytes next to a license id, 11 non-ASCII letters/digits/spaces, Unicode-fold look-alikes of every listed id")
}

// c05AllIDs: the token alphabet holds one representative per kind of id; here every listed id
// appears once in each position where its kind matters (alone, with each documented suffix, with
// '+', in tight parentheses, before and after WITH), judged by R-gram.
func c05AllIDs(c *Ctx) {
	t := T()
	var idx int64
	try := func(texts ...string) {
		idx++
		if !c.Mine(idx) {
			return
		}
		seq := toks(texts)
		for _, rn := range []string{"loose", "tight"} {
			text := renderBy(rn, seq)
			if !c.FirstTime(text) || !c.Begin(text) {
				continue
			}
			msg, out := c05Check(seq, text)
			c.Inc("states")
			c.Inc("transitions")
			c.Inc("evaluations")
			c.Inc("all_ids_cases")
			c.Outcome("ids:" + out)
			if out == "valid" {
				c.Inc("nontrivial")
				c.Inc("traces")
			} else if out == "invalid" {
				c.Inc("traces")
			}
			if msg != "" {
				dir := "rejects-valid"
				if strings.Contains(msg, "accepts") {
					dir = "accepts-invalid"
				}
				c.Report(Violation{Kind: "c05.seq", Class: "ids:" + dir, Key: text, Msg: msg, Size: len(text), Case: mustJSON(c05Case{Tokens: tokTexts(seq), Render: rn, Text: text})})
			}
		}
	}
	for _, id := range t.AllLicenseIDs() {
		if strings.HasSuffix(id, "+") {
			try(id)
			continue
		}
		try(id)
		try(id + "-only")
		try(id + "-or-later")
		try(id, "+")
		try(id+"-or-later", "+")
		try("(", id+"-only", ")", "AND", "(", id+"-or-later", ")")
		try(id, "+", "WITH", "Bison-exception-2.2")
		try(id+"-only", "WITH", "Bison-exception-2.2")
		try("MIT", "WITH", id)
		try("MIT", "WITH", "Bison-exception-2.2", "AND", id, "WITH", "Bison-exception-2.2")
		try(id, "WITH", "Bison-exception-2.2", "OR", id, "+")
	}
	for _, e := range t.Exceptions {
		try("MIT", "WITH", e)
		try("Apache-2.0", "+", "WITH", e)
		try("(", "MIT", "WITH", e, ")", "OR", "ISC")
		try(e)
		try(e, "WITH", e)
		try("MIT", "AND", e)
	}
	// stems: texts X that are on no list themselves although X-only / X-or-later is listed
	// (GFDL-1.2-invariants ...). X is an unknown id, so is X+; the listed forms stay valid.
	stems := listedSuffixStems()
	for _, x := range stems {
		for _, form := range [][]string{{x}, {x, "+"}, {x + "-only"}, {x + "-or-later"}, {"(", x, "+", ")"}, {x, "+", "WITH", "Bison-exception-2.2"}, {"MIT", "AND", x, "+"}, {"MIT", "OR", x}} {
			idx++
			if !c.Mine(idx) {
				continue
			}
			seq := toks(form)
			hasPlus := false
			for _, f := range form {
				if f == "+" {
					hasPlus = true
				}
			}
			for _, rn := range []string{"loose", "tight"} {
				text := renderBy(rn, seq)
				if !c.FirstTime(text) || !c.Begin(text) {
					continue
				}
				msg, out := c05Check(seq, text)
				c.Inc("states")
				c.Inc("transitions")
				c.Inc("evaluations")
				c.Inc("stem_cases")
				c.Inc("traces")
				c.Inc("nontrivial")
				c.Outcome("stems:" + out)
				if msg != "" {
					dir, key := "rejects-valid", text
					if strings.Contains(msg, "accepts") {
						dir = "accepts-invalid"
						if hasPlus {
							// one finding per stem: '<stem>+' is accepted, in whatever context
							key = "stem-plus:" + x
						}
					}
					c.Report(Violation{Kind: "c05.seq", Class: "stems:" + dir, Key: key, Msg: msg, Size: len(text), Case: mustJSON(c05Case{Tokens: tokTexts(seq), Render: rn, Text: text})})
				}
			}
		}
	}
	c.Bound("all_ids", map[string]any{"license_ids": len(t.AllLicenseIDs()), "exception_ids": len(t.Exceptions), "forms_per_license": 9, "forms_per_exception": 6, "stems_listed_only_with_suffix": stems, "forms_per_stem": 8})
}

// listedSuffixStems: every X such that X-only or X-or-later is a listed license id and X is on no list.
func listedSuffixStems() []string {
	t := T()
	seen := map[string]bool{}
	var out []string
	for _, id := range t.AllLicenseIDs() {
		for _, suf := range []string{"-only", "-or-later"} {
			if !strings.HasSuffix(id, suf) {
				continue
			}
			x := strings.TrimSuffix(id, suf)
			if seen[x] {
				continue
			}
			_, a := t.IsActive(x)
			_, d := t.IsDepr(x)
			_, e := t.IsExc(x)
			if !a && !d && !e {
				seen[x] = true
				out = append(out, x)
			}
		}
	}
	return out
}

// c05LongFamilies: size-parameterised valid sentences (as token lists). The short-sequence sweep
// cannot see a limit that only bites at 33 parentheses or 65 operands; these do.
var c05LongFamilies = map[string]func(n int) []string{
	"or-chain":  func(n int) []string { return c05Join(n, "OR", func(i int) []string { return []string{"MIT"} }) },
	"and-chain": func(n int) []string { return c05Join(n, "AND", func(i int) []string { return []string{"MIT"} }) },
	"flat-groups-or": func(n int) []string {
		return c05Join(n, "OR", func(i int) []string { return []string{"(", "MIT", ")"} })
	},
	"flat-groups-and": func(n int) []string {
		return c05Join(n, "AND", func(i int) []string { return []string{"(", "MIT", "OR", "ISC", ")"} })
	},
	"triple-paren-groups": func(n int) []string {
		return c05Join(n, "AND", func(i int) []string { return []string{"(", "(", "(", "MIT", ")", ")", ")"} })
	},
	"paren-depth": func(n int) []string {
		var t []string
		for i := 0; i < n; i++ {
			t = append(t, "(")
		}
		t = append(t, "MIT", "AND", "ISC")
		for i := 0; i < n; i++ {
			t = append(t, ")")
		}
		return t
	},
	"right-nested": func(n int) []string {
		var t []string
		for i := 0; i < n; i++ {
			op := "AND"
			if i%2 == 1 {
				op = "OR"
			}
			t = append(t, "MIT", op, "(")
		}
		t = append(t, "ISC")
		for i := 0; i < n; i++ {
			t = append(t, ")")
		}
		return t
	},
	"left-nested": func(n int) []string {
		var t []string
		for i := 0; i < n; i++ {
			t = append(t, "(")
		}
		t = append(t, "MIT")
		for i := 0; i < n; i++ {
			op := "AND"
			if i%2 == 1 {
				op = "OR"
			}
			t = append(t, op, "ISC", ")")
		}
		return t
	},
	"rich-chain": func(n int) []string {
		forms := [][]string{{"GPL-2.0", "+", "WITH", "Bison-exception-2.2"}, {"DocumentRef-d", ":", "LicenseRef-x"}, {"Apache-2.0-or-later"}, {"MIT-only"}, {"LicenseRef-x"}, {"GPL-2.0-or-later", "+"}}
		return c05Join(n, "OR", func(i int) []string { return forms[i%len(forms)] })
	},
	"mixed-precedence": func(n int) []string {
		var t []string
		for i := 0; i < n; i++ {
			if i > 0 {
				if i%3 == 0 {
					t = append(t, "OR")
				} else {
					t = append(t, "AND")
				}
			}
			t = append(t, "MIT")
		}
		return t
	},
}

func c05Join(n int, op string, term func(i int) []string) []string {
	var t []string
	for i := 0; i < n; i++ {
		if i > 0 {
			t = append(t, op)
		}
		t = append(t, term(i)...)
	}
	return t
}

func c05Long(c *Ctx) {
	sizes := []int{1, 2, 3, 4, 5, 6, 7, 8, 9, 10, 12, 15, 16, 17, 20, 24, 31, 32, 33, 34, 40, 48, 63, 64, 65, 66, 80, 96, 100, 127, 128, 129}
	if c.Thorough() {
		sizes = append(sizes, 160, 200, 255, 256, 257, 300, 400, 511, 512, 513, 700, 1000, 1023, 1024, 1025)
	}
	var names []string
	for k := range c05LongFamilies {
		names = append(names, k)
	}
	sortStrings(names)
	c.Bound("long_sentences", map[string]any{"families": names, "sizes": sizes, "edits": "the sentence itself, every single-token deletion (n <= 34) or deletions at the first / last / middle 3 positions, in loose and tight rendering"})
	var idx int64
	for _, name := range names {
		fam := c05LongFamilies[name]
		for _, n := range sizes {
			idx++
			if !c.Mine(idx) {
				continue
			}
			if c.Expired() {
				return
			}
			texts := fam(n)
			seq := toks(texts)
			check := func(s []Tok, what string) {
				for _, rn := range []string{"loose", "tight"} {
					text := renderBy(rn, s)
					if !c.FirstTime(text) || !c.Begin(first(text, 200)) {
						continue
					}
					msg, out := c05Check(s, text)
					c.Inc("states")
					c.Inc("transitions")
					c.Inc("evaluations")
					c.Inc("long_sentence_cases")
					c.Outcome("long:" + out)
					if out == "valid" {
						c.Inc("nontrivial")
						c.Inc("traces")
					} else if out == "invalid" {
						c.Inc("traces")
					}
					if msg != "" {
						dir := "rejects-valid"
						if strings.Contains(msg, "accepts") {
							dir = "accepts-invalid"
						}
						c.Report(Violation{Kind: "c05.seq", Class: "long:" + dir + ":" + name, Key: fmt.Sprintf("long:%s:n=%d:%s:%s", name, n, what, rn), Size: len(text),
							Msg:  fmt.Sprintf("family %s, n=%d (%d tokens, %s): %s", name, n, len(s), what, first(msg, 300)),
							Case: mustJSON(c05Case{Tokens: tokTexts(s), Render: rn, Text: text})})
					}
				}
			}
			check(seq, "the sentence itself")
			var positions []int
			if n <= 34 {
				for i := range seq {
					positions = append(positions, i)
				}
			} else {
				m := len(seq) / 2
				positions = []int{0, 1, 2, m - 1, m, m + 1, len(seq) - 3, len(seq) - 2, len(seq) - 1}
			}
			for _, p := range positions {
				if p < 0 || p >= len(seq) {
					continue
				}
				del := append(append([]Tok{}, seq[:p]...), seq[p+1:]...)
				check(del, fmt.Sprintf("token %d deleted", p))
			}
		}
	}
}

func sortStrings(l []string) {
	for i := 1; i < len(l); i++ {
		for j := i; j > 0 && l[j] < l[j-1]; j-- {
			l[j], l[j-1] = l[j-1], l[j]
		}
	}
}
