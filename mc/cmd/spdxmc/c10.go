package main

// C10 — same Boolean function, same verdict. Explicit-state search: states = expression trees
// up to N leaves, transitions = one Boolean-algebra rewrite at any subterm (plus rendering
// changes); invariant on every edge: verdict vector (and, except for absorption, the extracted
// term set) unchanged. Workers compute the observation of every state on the real code; the
// supervisor walks every edge of the bounded rewrite graph. Plus compositionality.

import (
	"encoding/json"
	"fmt"
	"strings"
)

var c10Atoms = []string{"MIT", "ISC", "LicenseRef-a"}

type c10Case struct {
	Kind string `json:"kind"` // edge | render | compose
	Rule string `json:"rule"`
	E1   string `json:"e1"`
	E2   string `json:"e2"`
	Op   string `json:"op,omitempty"`
	Set  string `json:"atom_set,omitempty"`
	Sub  int    `json:"max_allowed_subset,omitempty"`
}

var c10Subsets = func() [][]string {
	out := make([][]string, 8)
	for m := 1; m < 8; m++ {
		for i, a := range c10Atoms {
			if m&(1<<uint(i)) != 0 {
				out[m] = append(out[m], a)
			}
		}
	}
	return out
}()

// c10Obs: low 7 bits = verdict under subsets 1..7, bits 8..10 = extracted-term mask, 0xFFFF = unusable.
func c10Obs(expr string) uint16 {
	var v uint16
	for m := 1; m < 8; m++ {
		r := Sat(expr, c10Subsets[m])
		if r.Panic != "" || r.IsErr {
			return 0xFFFF
		}
		if r.Ok {
			v |= 1 << uint(m-1)
		}
	}
	e := Ext(expr)
	if e.Panic != "" || e.IsErr {
		return 0xFFFF
	}
	for _, x := range e.List {
		found := false
		for i, a := range c10Atoms {
			if x == a {
				v |= 1 << uint(8+i)
				found = true
			}
		}
		if !found {
			v |= 1 << 15 // an invented term
		}
	}
	return v
}

func c10Describe(v uint16) string {
	if v == 0xFFFF {
		return "error/panic"
	}
	var sat []string
	for m := 1; m < 8; m++ {
		if v&(1<<uint(m-1)) != 0 {
			sat = append(sat, "{"+strings.Join(c10Subsets[m], ",")+"}")
		}
	}
	var ext []string
	for i, a := range c10Atoms {
		if v&(1<<uint(8+i)) != 0 {
			ext = append(ext, a)
		}
	}
	return fmt.Sprintf("satisfied by %v, extracts %v", sat, ext)
}

func c10Compare(cs c10Case) string {
	o1, o2 := c10Obs(cs.E1), c10Obs(cs.E2)
	if o1 == 0xFFFF || o2 == 0xFFFF {
		return ""
	}
	if cs.Kind == "compose" {
		a, b := o1&0x7f, o2&0x7f
		text := "(" + cs.E1 + ") " + cs.Op + " (" + cs.E2 + ")"
		o := c10Obs(text)
		if o == 0xFFFF {
			return ""
		}
		want := a & b
		if cs.Op == "OR" {
			want = a | b
		}
		if o&0x7f != want {
			return fmt.Sprintf("not compositional: %q is %s, but its operands are %s and %s", text, c10Describe(o&0x7f), c10Describe(a), c10Describe(b))
		}
		if (o>>8)&7 != ((o1>>8)|(o2>>8))&7 {
			return fmt.Sprintf("ExtractLicenses(%q) is not the union of its operands' terms: %s vs %s / %s", text, c10Describe(o), c10Describe(o1), c10Describe(o2))
		}
		return ""
	}
	mask := uint16(0xffff)
	if cs.Rule == "absorption" {
		mask = 0x7f
	}
	if o1&mask != o2&mask {
		return fmt.Sprintf("rewrite %s: %q is %s, but %q is %s", cs.Rule, cs.E1, c10Describe(o1), cs.E2, c10Describe(o2))
	}
	return ""
}

// terms that share an id but differ in '+' or WITH: a verdict cached under too coarse a key
// (the bare id) shows up as a compositionality failure here
var c10RichAtoms = []string{"GPL-2.0-only", "GPL-2.0-only WITH Classpath-exception-2.0", "Apache-1.0+", "Apache-1.0", "LicenseRef-a", "LicenseRef-A"}

// a second atom set for the same sweep: one LicenseRef name plain, under two DocumentRefs, in another case, and named like a listed id
var c10RefAtoms = []string{"LicenseRef-a", "DocumentRef-d:LicenseRef-a", "DocumentRef-e:LicenseRef-a", "LicenseRef-A", "MIT", "LicenseRef-MIT"}

const c10RichBad = ^uint64(0)

// c10RichObs: bit m-1 = Satisfies(expr, subset m of c10RichAtoms), m = 1..63; all ones = unusable.
func c10RichObs(expr string) uint64 { return c10AtomObs(c10CurAtoms, expr) }

// c10CurAtoms is the atom set the rich compositionality sweep is currently running over.
var c10CurAtoms = c10RichAtoms

func c10AtomObs(atoms []string, expr string) uint64 {
	var v uint64
	for m := 1; m < 1<<uint(len(atoms)); m++ {
		var al []string
		for i, a := range atoms {
			if m&(1<<uint(i)) != 0 {
				al = append(al, a)
			}
		}
		r := Sat(expr, al)
		if r.Panic != "" || r.IsErr {
			return c10RichBad
		}
		if r.Ok {
			v |= 1 << uint(m-1)
		}
	}
	return v
}

func c10RichCompare(cs c10Case) string {
	a, b := c10RichObs(cs.E1), c10RichObs(cs.E2)
	text := "(" + cs.E1 + ") " + cs.Op + " (" + cs.E2 + ")"
	o := c10RichObs(text)
	if a == c10RichBad || b == c10RichBad || o == c10RichBad {
		return ""
	}
	want := a & b
	if cs.Op == "OR" {
		want = a | b
	}
	if o != want {
		for m := 1; m < 1<<uint(len(c10CurAtoms)); m++ {
			if (o^want)&(1<<uint(m-1)) != 0 {
				var al []string
				for i, x := range c10CurAtoms {
					if m&(1<<uint(i)) != 0 {
						al = append(al, x)
					}
				}
				return fmt.Sprintf("not compositional: Satisfies(%q, %q) = %v but Satisfies(%q) = %v and Satisfies(%q) = %v under the same list", text, al, o&(1<<uint(m-1)) != 0, cs.E1, a&(1<<uint(m-1)) != 0, cs.E2, b&(1<<uint(m-1)) != 0)
			}
		}
	}
	return ""
}

// c10VariantObs: the verdicts under every subset of the atoms of up to maxSub entries (in atom order) plus
// the sorted extracted set; "" = unusable.
func c10VariantObs(atoms []string, expr string, maxSub int) string {
	var b strings.Builder
	for m := 1; m < 1<<uint(len(atoms)); m++ {
		if popcount(uint32(m)) > maxSub {
			continue
		}
		var al []string
		for i, a := range atoms {
			if m&(1<<uint(i)) != 0 {
				al = append(al, a)
			}
		}
		r := Sat(expr, al)
		if r.Panic != "" || r.IsErr {
			return ""
		}
		if r.Ok {
			b.WriteByte('1')
		} else {
			b.WriteByte('0')
		}
	}
	e := Ext(expr)
	if e.Panic != "" || e.IsErr {
		return ""
	}
	b.WriteString(" extracts {" + strings.Join(sortedKeys(setOf(e.List)), ", ") + "}")
	return b.String()
}

func c10VariantCompare(cs c10Case) string {
	v := idVariants(cs.Set)
	if cs.Sub < 1 {
		cs.Sub = 1
	}
	o1, o2 := c10VariantObs(v, cs.E1, cs.Sub), c10VariantObs(v, cs.E2, cs.Sub)
	if o1 == "" || o2 == "" || o1 == o2 {
		return ""
	}
	return fmt.Sprintf("rewrite %s: %q gives [verdicts under every allowed list of <= %d of %q, in subset order] %s, but %q gives %s", cs.Rule, cs.E1, cs.Sub, v, o1, cs.E2, o2)
}

func init() {
	kinds["c10.case"] = func(raw json.RawMessage) string {
		var cs c10Case
		if err := json.Unmarshal(raw, &cs); err != nil {
			return "bad case"
		}
		if cs.Kind == "variant-edge" {
			return c10VariantCompare(cs)
		}
		if cs.Kind == "compose-rich" {
			c10CurAtoms = c10RichAtoms
			if cs.Set == "refs" {
				c10CurAtoms = c10RefAtoms
			}
			return c10RichCompare(cs)
		}
		return c10Compare(cs)
	}
	register(&PropDef{
		ID:       "C10",
		Title:    "expressions denoting the same Boolean function get the same verdict",
		Explorer: "explicit-state search over the bounded rewrite graph of expression trees (states observed on the real code, every edge checked) + compositionality sweep",
		Rule: "states = every expression tree with <= N leaves over atoms {MIT, ISC, LicenseRef-a} (all shapes, AND/OR labellings, leaf labellings); observation of a state = Satisfies under each of the 7 non-empty atom subsets + ExtractLicenses set, taken from the real code on the fully parenthesised rendering; " +
			"transitions = one application at any subterm of commutativity, associativity, idempotence, absorption, distribution (either operator over the other) whose result stays within N leaves, plus 3 rendering changes per state (minimal parentheses, redundant outer parentheses, extra spaces); " +
			"invariant on every edge: verdict vector equal, and extracted set equal except for absorption; the same two invariants for operand order / root regrouping of every tree <= 3 leaves over the ways of writing one license (x, x+, x-only, x-or-later, x WITH e, x+ WITH e, x WITH f; 4 licenses); compositionality: Satisfies((E) op (F)) = Satisfies(E) op Satisfies(F) for all E, F <= 3 leaves, all subsets; non-trivial = edges between textually different expressions whose verdict vector is neither all-false nor all-true",
		Assumptions: []string{"purely differential: no reference evaluator; the rewrite engine (c10.go) must apply only sound Boolean-algebra rules"},
		Run:         c10Run,
		Post:        c10Post,
	})
}

func c10N(tier string) int {
	if tier == "thorough" {
		return 6
	}
	return 5
}

func c10Run(c *Ctx) {
	N := c10N(c.Tier)
	trees := TreesUpTo(N, len(c10Atoms))
	total := 0
	for n := 1; n <= N; n++ {
		total += len(trees[n])
	}
	c.Bound("rewrite_graph", map[string]any{"max_leaves": N, "atoms": c10Atoms, "states": total})
	blob := make([]byte, 0, 2*(total/c.N+1))
	var idx int64
	for n := 1; n <= N; n++ {
		for _, t := range trees[n] {
			i := idx
			idx++
			if !c.Mine(i) {
				continue
			}
			full := t.RenderFull(c10Atoms, true)
			o := uint16(0xFFFF)
			if !c.Expired() && c.Begin(full) {
				o = c10Obs(full)
				c.Inc("states")
				c.Add("transitions", 8)
				c.Inc("evaluations")
				if o == 0xFFFF {
					c.Inc("states_unusable_error_or_panic")
				} else {
					c.Add("traces", 8)
					c.Outcome(fmt.Sprintf("vector=%07b", o&0x7f))
					// rendering transitions
					for _, alt := range [][2]string{{"minimal-parentheses", t.RenderMin(c10Atoms)}, {"outer-parentheses", "((" + full + "))"},
						{"extra-spaces", "  " + strings.ReplaceAll(strings.ReplaceAll(strings.ReplaceAll(full, " ", "   "), "(", "( "), ")", " )") + "  "}} {
						if alt[1] == full {
							continue
						}
						o2 := c10Obs(alt[1])
						c.Add("transitions", 8)
						c.Inc("render_edges")
						if o2 != 0xFFFF && o2 != o {
							cs := c10Case{Kind: "render", Rule: alt[0], E1: full, E2: alt[1]}
							c.Report(Violation{Kind: "c10.case", Class: "render:" + alt[0], Key: full + " => " + alt[1], Msg: c10Compare(cs), Size: len(full), Case: mustJSON(cs)})
						}
					}
					c.Sample(func() any { return map[string]any{"state": full, "observation": c10Describe(o)} })
				}
			}
			blob = append(blob, byte(o), byte(o>>8))
		}
	}
	c.res.Blob = blob

	// compositionality
	small := TreesUpTo(3, len(c10Atoms))
	var es []string
	for n := 1; n <= 3; n++ {
		for _, t := range small[n] {
			es = append(es, t.RenderMin(c10Atoms))
		}
	}
	c.Bound("compositionality", map[string]any{"operands_max_leaves": 3, "operands": len(es)})
	obs := make([]uint16, len(es))
	have := make([]bool, len(es))
	get := func(i int) uint16 {
		if !have[i] {
			obs[i], have[i] = c10Obs(es[i]), true
		}
		return obs[i]
	}
	var pi int64
	for i := range es {
		for j := range es {
			pi++
			if !c.Mine(pi) {
				continue
			}
			if c.Expired() {
				return
			}
			a, b := get(i), get(j)
			if a == 0xFFFF || b == 0xFFFF {
				c.Inc("skipped_panic")
				continue
			}
			for _, op := range []string{"AND", "OR"} {
				text := "(" + es[i] + ") " + op + " (" + es[j] + ")"
				if !c.Begin(text) {
					continue
				}
				o := c10Obs(text)
				c.Inc("states")
				c.Add("transitions", 8)
				c.Inc("evaluations")
				if o == 0xFFFF {
					c.Inc("skipped_panic")
					continue
				}
				c.Add("traces", 8)
				want := a & b & 0x7f
				if op == "OR" {
					want = (a | b) & 0x7f
				}
				if want != 0 && want != 0x7f {
					c.Inc("nontrivial")
				}
				if o&0x7f != want || (o>>8)&7 != ((a>>8)|(b>>8))&7 || o&(1<<15) != 0 {
					cs := c10Case{Kind: "compose", E1: es[i], E2: es[j], Op: op}
					msg := c10Compare(cs)
					if msg == "" {
						msg = "compositionality violated (not reproduced on re-check)"
					}
					c.Report(Violation{Kind: "c10.case", Class: "compose:" + op, Key: text, Msg: msg, Size: len(text), Case: mustJSON(cs)})
				}
			}
		}
	}

	// long regroupings: right chain, left chain and balanced tree of one operator over the same leaf
	// sequence denote the same function (associativity applied n times), in every rendering
	sizes := append([]int{}, longSizes...)
	if c.Thorough() {
		sizes = append(sizes, longSizesThorough...)
	}
	c.Bound("long_regrouping", map[string]any{"sizes": sizes, "families": "right chain = left chain = balanced tree, AND and OR, 3 renderings"})
	for _, n := range sizes {
		pi++
		if !c.Mine(pi) {
			continue
		}
		if c.Expired() {
			return
		}
		lt := LongTrees(n, len(c10Atoms))
		for _, opn := range []string{"and", "or"} {
			var ref uint16
			var refText string
			for fi, fam := range []string{"right-chain-", "left-chain-", "balanced-"} {
				t := lt[fam+opn]
				for _, text := range []string{t.RenderFull(c10Atoms, true), t.RenderMin(c10Atoms), t.RenderAssoc(c10Atoms)} {
					if !c.Begin(fmt.Sprintf("long regrouping %s%s n=%d", fam, opn, n)) {
						continue
					}
					o := c10Obs(text)
					c.Inc("states")
					c.Add("transitions", 8)
					c.Inc("evaluations")
					if o == 0xFFFF {
						c.Inc("skipped_panic")
						continue
					}
					c.Add("traces", 8)
					if refText == "" {
						ref, refText = o, text
						continue
					}
					c.Inc("long_regrouping_edges")
					if v := o & 0x7f; v != 0 && v != 0x7f {
						c.Inc("nontrivial")
					}
					if o != ref {
						cs := c10Case{Kind: "edge", Rule: "associativity (regrouping of a " + fmt.Sprint(n) + "-operand chain)", E1: refText, E2: text}
						c.Report(Violation{Kind: "c10.case", Class: "long-regrouping:" + opn, Key: fmt.Sprintf("long:%s:%d:%d", opn, n, fi), Size: 1000 + n,
							Msg: fmt.Sprintf("regrouping a chain of %d %s-operands changes the observation: %s vs %s (first expression: %s)", n, opn, c10Describe(ref), c10Describe(o), first(refText, 120)), Case: mustJSON(cs)})
					}
				}
			}
		}
	}

	// compositionality over terms that share an id but differ in '+' / WITH
	for _, set := range []struct {
		name  string
		atoms []string
	}{{"modifiers", c10RichAtoms}, {"refs", c10RefAtoms}} {
		c10CurAtoms = set.atoms
		rich := TreesUpTo(2, len(set.atoms))
		var res []string
		for n := 1; n <= 2; n++ {
			for _, t := range rich[n] {
				res = append(res, t.RenderMin(set.atoms))
			}
		}
		c.Bound("compositionality_"+set.name, map[string]any{"atoms": set.atoms, "operands_max_leaves": 2, "operands": len(res), "allowed": "all 63 non-empty subsets of the atoms"})
		robs := make([]uint64, len(res))
		rhave := make([]bool, len(res))
		rget := func(i int) uint64 {
			if !rhave[i] {
				robs[i], rhave[i] = c10RichObs(res[i]), true
			}
			return robs[i]
		}
		for i := range res {
			for j := range res {
				pi++
				if !c.Mine(pi) {
					continue
				}
				if c.Expired() {
					return
				}
				a, b := rget(i), rget(j)
				if a == c10RichBad || b == c10RichBad {
					c.Inc("skipped_panic")
					continue
				}
				for _, op := range []string{"AND", "OR"} {
					text := "(" + res[i] + ") " + op + " (" + res[j] + ")"
					o := c10RichObs(text)
					c.Inc("states")
					c.Add("transitions", 63)
					c.Inc("evaluations")
					if o == c10RichBad {
						c.Inc("skipped_panic")
						continue
					}
					c.Add("traces", 63)
					want := a & b
					if op == "OR" {
						want = a | b
					}
					if want != 0 && want != 1<<uint(1<<uint(len(set.atoms))-1)-1 {
						c.Inc("nontrivial")
					}
					if o != want {
						cs := c10Case{Kind: "compose-rich", E1: res[i], E2: res[j], Op: op, Set: set.name}
						msg := c10RichCompare(cs)
						if msg == "" {
							msg = "compositionality violated (not reproduced on re-check)"
						}
						c.Report(Violation{Kind: "c10.case", Class: "compose-" + set.name + ":" + op, Key: set.name + ":" + text, Msg: msg, Size: len(text), Case: mustJSON(cs)})
					}
				}
			}
		}
	}

	// rewrites that keep the set of terms, over the different ways of writing ONE license: operand order
	// everywhere, and regrouping at the root, must change neither the verdicts nor the extracted set
	var vs []map[string]any
	for _, x := range variantIDs {
		v := idVariants(x)
		vs = append(vs, map[string]any{"license": x, "terms": v})
		vt := TreesUpTo(3, len(v))
		for n := 2; n <= 3; n++ {
			for _, t := range vt[n] {
				pi++
				if !c.Mine(pi) {
					continue
				}
				if c.Expired() {
					return
				}
				e1 := t.RenderMin(v)
				if !c.Begin("variants " + e1) {
					continue
				}
				// two operands: every allowed list of <= 3 variants; three: every single variant
				sub := 1
				if n == 2 {
					sub = 3
				}
				o1 := c10VariantObs(v, e1, sub)
				nl := int64(1) // ExtractLicenses
				for m := 1; m < 1<<uint(len(v)); m++ {
					if popcount(uint32(m)) <= sub {
						nl++
					}
				}
				c.Inc("states")
				c.Add("transitions", nl)
				c.Inc("evaluations")
				if o1 == "" {
					c.Inc("skipped_panic")
					continue
				}
				alts := []struct {
					rule string
					t    *Tree
				}{{"commutativity (every operator)", t.Mirror()}}
				for _, r := range t.Rotations() {
					alts = append(alts, struct {
						rule string
						t    *Tree
					}{"associativity (root)", r})
				}
				type alt2 struct{ rule, text string }
				var texts []alt2
				for _, a := range alts {
					texts = append(texts, alt2{a.rule, a.t.RenderMin(v)})
				}
				// an optional blank: '+' written directly against WITH, where this tree accepts that
				if g := strings.ReplaceAll(e1, "+ WITH", "+WITH"); g != e1 && Valid1(g) == 1 {
					texts = append(texts, alt2{"blank between '+' and WITH removed", g})
				}
				for _, a := range texts {
					e2 := a.text
					if e2 == e1 {
						continue
					}
					o2 := c10VariantObs(v, e2, sub)
					c.Add("transitions", nl)
					c.Inc("variant_edges")
					c.Add("traces", nl)
					c.Inc("nontrivial")
					c.Outcome("variant-edge:" + a.rule)
					if o2 != "" && o2 != o1 {
						cs := c10Case{Kind: "variant-edge", Rule: a.rule, E1: e1, E2: e2, Set: x, Sub: sub}
						c.Report(Violation{Kind: "c10.case", Class: "variant-edge:" + a.rule, Key: "variants:" + e1 + " => " + e2, Msg: c10VariantCompare(cs), Size: len(e1), Case: mustJSON(cs)})
					}
				}
			}
		}
	}
	c.Bound("variant_rewrites", map[string]any{"sets": vs, "max_leaves": 3, "rewrites": "operand order at every operator; regrouping at the root; the blank between '+' and WITH removed (where this tree accepts that)", "observation": "Satisfies under every allowed list of <= 3 variants (two operands) / every single variant (three operands) + the set ExtractLicenses returns"})
}

// ---------------------------------------------------------------- supervisor side: walk every edge

type tkey struct {
	op   byte
	l, r *Tree
}

func c10Post(m *Merged) {
	N := c10N(m.Tier)
	trees := TreesUpTo(N, len(c10Atoms))
	index := map[*Tree]int32{}
	intern := map[tkey]*Tree{}
	var all []*Tree
	for n := 1; n <= N; n++ {
		for _, t := range trees[n] {
			index[t] = int32(len(all))
			all = append(all, t)
			if t.Op != 0 {
				intern[tkey{t.Op, t.L, t.R}] = t
			}
		}
	}
	obs := make([]uint16, len(all))
	for i := range obs {
		obs[i] = 0xFFFF
	}
	for shard, blob := range m.Blobs {
		k := 0
		for i := shard; i < len(all); i += m.NShards {
			if 2*k+1 < len(blob) {
				obs[i] = uint16(blob[2*k]) | uint16(blob[2*k+1])<<8
			}
			k++
		}
	}
	mk := func(op byte, l, r *Tree) *Tree {
		if l == nil || r == nil {
			return nil
		}
		return intern[tkey{op, l, r}]
	}
	other := func(op byte) byte {
		if op == 'a' {
			return 'o'
		}
		return 'a'
	}
	type rw struct {
		t    *Tree
		rule string
	}
	memo := map[*Tree][]rw{}
	var rewrites func(t *Tree) []rw
	rewrites = func(t *Tree) []rw {
		if t.Op == 0 {
			return nil
		}
		if r, ok := memo[t]; ok {
			return r
		}
		var out []rw
		add := func(x *Tree, rule string) {
			if x != nil && x != t {
				out = append(out, rw{x, rule})
			}
		}
		A, B, op := t.L, t.R, t.Op
		add(mk(op, B, A), "commutativity")
		if A.Op == op {
			add(mk(op, A.L, mk(op, A.R, B)), "associativity")
		}
		if B.Op == op {
			add(mk(op, mk(op, A, B.L), B.R), "associativity")
		}
		if A == B {
			add(A, "idempotence")
		}
		o := other(op)
		if B.Op == o && (B.L == A || B.R == A) {
			add(A, "absorption")
		}
		if A.Op == o && (A.L == B || A.R == B) {
			add(B, "absorption")
		}
		if B.Op == o {
			add(mk(o, mk(op, A, B.L), mk(op, A, B.R)), "distribution")
		}
		if A.Op == o {
			add(mk(o, mk(op, A.L, B), mk(op, A.R, B)), "distribution")
		}
		for _, x := range rewrites(A) {
			add(mk(op, x.t, B), x.rule)
		}
		for _, x := range rewrites(B) {
			add(mk(op, A, x.t), x.rule)
		}
		memo[t] = out
		return out
	}
	var edges, skipped, nontrivial int64
	ruleCount := map[string]int64{}
	for i, t := range all {
		o1 := obs[i]
		for _, x := range rewrites(t) {
			j := index[x.t]
			o2 := obs[j]
			edges++
			ruleCount[x.rule]++
			if o1 == 0xFFFF || o2 == 0xFFFF {
				skipped++
				continue
			}
			if v := o1 & 0x7f; v != 0 && v != 0x7f {
				nontrivial++
			}
			mask := uint16(0xffff)
			if x.rule == "absorption" {
				mask = 0x7f
			}
			if o1&mask != o2&mask {
				cs := c10Case{Kind: "edge", Rule: x.rule, E1: t.RenderFull(c10Atoms, true), E2: x.t.RenderFull(c10Atoms, true)}
				msg := fmt.Sprintf("rewrite %s: %q is %s, but %q is %s", x.rule, cs.E1, c10Describe(o1), cs.E2, c10Describe(o2))
				addViolation(m, Violation{Prop: "C10", Kind: "c10.case", Class: "edge:" + x.rule, Key: cs.E1 + " => " + cs.E2, Msg: msg, Size: len(cs.E1) + len(cs.E2), Case: mustJSON(cs)})
			}
		}
	}
	m.Counters["transitions"] += edges
	m.Counters["rewrite_edges"] = edges
	m.Counters["rewrite_edges_skipped_unusable_state"] = skipped
	m.Counters["nontrivial"] += nontrivial
	m.Counters["traces"] += edges - skipped
	for k, v := range ruleCount {
		m.Counters["edges_"+k] = v
	}
	unusable := 0
	for _, o := range obs {
		if o == 0xFFFF {
			unusable++
		}
	}
	m.Counters["states_without_observation"] = int64(unusable)
	if unusable > 0 {
		m.Notes = append(m.Notes, fmt.Sprintf("%d states had no usable observation (error/panic/deadline); edges touching them were skipped", unusable))
	}
}
