package main

// Worker-side context: sharding, counters, samples, violations, journal (mmap heartbeat).

import (
	"encoding/binary"
	"encoding/json"
	"fmt"
	"os"
	"sort"
	"syscall"
	"time"
)

// Violation is one failed oracle evaluation. Kind names the case checker that can re-evaluate
// Case (see replay.go); Key is the specific identity used by known_findings.txt; Class groups
// violations of one root cause so a systematic defect does not flood the output.
type Violation struct {
	Prop   string          `json:"property"`
	Kind   string          `json:"kind"`
	Class  string          `json:"class"`
	Key    string          `json:"key"`
	Msg    string          `json:"message"`
	Size   int             `json:"size"`
	Case   json.RawMessage `json:"case"`
	GoTest string          `json:"go_test,omitempty"`
}

type classAgg struct {
	Count int64       `json:"count"`
	Best  []Violation `json:"best"` // smallest few
}

// ShardResult is what a worker hands to the supervisor.
type ShardResult struct {
	Shard      int                  `json:"shard"`
	Counters   map[string]int64     `json:"counters"`
	Outcomes   map[string]int64     `json:"outcomes"`
	Samples    []any                `json:"samples"`
	Classes    map[string]*classAgg `json:"classes"`
	Exhaustive bool                 `json:"exhaustive"`
	Notes      []string             `json:"notes"`
	Bounds     map[string]any       `json:"bounds"`
	StrayOut   int64                `json:"stray_output_bytes"`
	WallS      float64              `json:"wall_s"`
	Blob       []byte               `json:"blob,omitempty"` // property-specific per-shard data for the supervisor's Post step
}

type Ctx struct {
	Prop     string
	Tier     string // quick | thorough
	Shard, N int
	Deadline time.Time
	res      *ShardResult
	journal  []byte // mmap'd: [8 seq][4 len][bytes]
	seq      uint64
	sampleAt int64
	sampleN  int64
	expired  bool
	checkCtr int
	keepPer  int
	replay   bool
	known    map[string]bool
	seen     map[uint64]struct{}
	skip     map[string]bool
}

func newCtx(prop, tier string, shard, n int) *Ctx {
	c := &Ctx{Prop: prop, Tier: tier, Shard: shard, N: n, keepPer: 3}
	c.res = &ShardResult{Shard: shard, Counters: map[string]int64{}, Outcomes: map[string]int64{},
		Classes: map[string]*classAgg{}, Exhaustive: true, Bounds: map[string]any{}}
	return c
}

func (c *Ctx) Thorough() bool { return c.Tier == "thorough" }

// Mine tells whether enumeration index i belongs to this shard.
func (c *Ctx) Mine(i int64) bool { return c.N <= 1 || int(i%int64(c.N)) == c.Shard }

// MineStr shards by content so that duplicates of one string always meet in one worker.
func (c *Ctx) MineStr(s string) bool {
	return c.N <= 1 || int(fnv64(s)%uint64(c.N)) == c.Shard
}

// FirstTime reports whether s has not been seen before by this worker (64-bit hash set).
func (c *Ctx) FirstTime(s string) bool {
	if c.seen == nil {
		c.seen = map[uint64]struct{}{}
	}
	h := fnv64(s) ^ 0x9e3779b97f4a7c15
	h ^= h >> 29
	if _, ok := c.seen[h]; ok {
		return false
	}
	c.seen[h] = struct{}{}
	return true
}

func fnv64(s string) uint64 {
	h := uint64(14695981039346656037)
	for i := 0; i < len(s); i++ {
		h ^= uint64(s[i])
		h *= 1099511628211
	}
	return h
}

func (c *Ctx) Add(name string, n int64) { c.res.Counters[name] += n }
func (c *Ctx) Inc(name string)          { c.res.Counters[name]++ }
func (c *Ctx) Outcome(o string)         { c.res.Outcomes[o]++ }
func (c *Ctx) Note(s string)            { c.res.Notes = append(c.res.Notes, s) }
func (c *Ctx) Bound(k string, v any)    { c.res.Bounds[k] = v }

// Sample keeps a logarithmic number of written-out cases (first two, then every ~x5).
func (c *Ctx) Sample(f func() any) {
	c.sampleN++
	if c.sampleN <= 2 || c.sampleN >= c.sampleAt {
		if len(c.res.Samples) < 12 {
			c.res.Samples = append(c.res.Samples, f())
		}
		if c.sampleAt < 4 {
			c.sampleAt = 4
		}
		c.sampleAt *= 5
	}
}

// Begin records the case about to be executed in the journal so that the supervisor can
// attribute a worker death or a hang to it.
func (c *Ctx) Begin(desc string) bool {
	if c.skip[desc] {
		c.Inc("skipped_fatal_case")
		return false
	}
	if c.journal == nil {
		return true
	}
	c.seq++
	if len(desc) > len(c.journal)-12 {
		desc = desc[:len(c.journal)-12]
	}
	binary.LittleEndian.PutUint32(c.journal[8:12], uint32(len(desc)))
	copy(c.journal[12:], desc)
	binary.LittleEndian.PutUint64(c.journal[0:8], c.seq)
	return true
}

// Expired is polled by enumerators; once true the run is marked non-exhaustive.
func (c *Ctx) Expired() bool {
	if c.expired {
		return true
	}
	c.checkCtr++
	if c.checkCtr&0xff != 0 || c.Deadline.IsZero() {
		return false
	}
	if time.Now().After(c.Deadline) {
		c.expired = true
		c.res.Exhaustive = false
		c.Note("internal deadline hit; enumeration stopped early (see counters for what was covered)")
	}
	return c.expired
}

func (c *Ctx) NotExhaustive(why string) {
	c.res.Exhaustive = false
	c.Note(why)
}

// Report records a violation (keeps the smallest few per class).
func (c *Ctx) Report(v Violation) {
	v.Prop = c.Prop
	if v.Class == "" {
		v.Class = v.Kind
	}
	if v.Key == "" {
		v.Key = v.Class
	}
	if c.known[v.Key] {
		// listed findings get a class of their own so they can never hide an unlisted one
		v.Class = "known:" + v.Key
	}
	a := c.res.Classes[v.Class]
	if a == nil {
		a = &classAgg{}
		c.res.Classes[v.Class] = a
	}
	a.Count++
	a.Best = append(a.Best, v)
	if len(a.Best) > 4*c.keepPer {
		trimBest(a, c.keepPer)
	}
}

func trimBest(a *classAgg, k int) {
	sort.SliceStable(a.Best, func(i, j int) bool {
		if a.Best[i].Size != a.Best[j].Size {
			return a.Best[i].Size < a.Best[j].Size
		}
		return a.Best[i].Key < a.Best[j].Key
	})
	// distinct keys only
	out := a.Best[:0]
	seen := map[string]bool{}
	for _, v := range a.Best {
		if seen[v.Key] {
			continue
		}
		seen[v.Key] = true
		out = append(out, v)
		if len(out) == k {
			break
		}
	}
	a.Best = out
}

func mustJSON(v any) json.RawMessage {
	b, err := json.Marshal(v)
	if err != nil {
		panic(err)
	}
	return b
}

func openJournal(path string) ([]byte, error) {
	f, err := os.OpenFile(path, os.O_RDWR|os.O_CREATE, 0o600)
	if err != nil {
		return nil, err
	}
	defer f.Close()
	const sz = 1 << 16
	if err := f.Truncate(sz); err != nil {
		return nil, err
	}
	return syscall.Mmap(int(f.Fd()), 0, sz, syscall.PROT_READ|syscall.PROT_WRITE, syscall.MAP_SHARED)
}

func readJournal(path string) (uint64, string) {
	b, err := os.ReadFile(path)
	if err != nil || len(b) < 12 {
		return 0, ""
	}
	seq := binary.LittleEndian.Uint64(b[0:8])
	n := int(binary.LittleEndian.Uint32(b[8:12]))
	if n > len(b)-12 {
		n = len(b) - 12
	}
	return seq, string(b[12 : 12+n])
}

func fatalf(format string, a ...any) {
	fmt.Fprintf(os.Stderr, "spdxmc: "+format+"\n", a...)
	os.Exit(2)
}
