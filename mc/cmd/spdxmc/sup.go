package main

// Supervisor: shards an enumeration over worker processes, watches them, merges their results,
// re-verifies violations in a fresh process, applies known_findings.txt, writes evidence and
// replay files, prints VIOLATION / KNOWN-FINDING lines.

import (
	"bufio"
	"crypto/sha1"
	"encoding/hex"
	"encoding/json"
	"fmt"
	"os"
	"os/exec"
	"path/filepath"
	"sort"
	"strconv"
	"strings"
	"sync"
	"time"
)

// outRoot is where evidence/ and replays/ are written (VERIF_OUT_DIR is used by experiments on
// scratch worktrees so that they never overwrite the evidence of the registered checks).
var outRoot = func() string {
	if v := os.Getenv("VERIF_OUT_DIR"); v != "" {
		return v
	}
	if v := os.Getenv("VERIF_ROOT"); v != "" {
		return v
	}
	return "/verif"
}()

var verifRoot = func() string {
	if v := os.Getenv("VERIF_ROOT"); v != "" {
		return v
	}
	return "/verif"
}()

type PropDef struct {
	ID          string
	Title       string
	Rule        string   // how cases are enumerated and what makes one non-trivial
	Assumptions []string // trusted base
	Explorer    string
	Run         func(c *Ctx)
	// Pre runs in the supervisor before the workers start (optional, e.g. building a harness).
	Pre func(m *Merged, scratch string) error
	// Post runs in the supervisor on merged data (optional, e.g. cross-shard oracles).
	Post func(m *Merged)
	// Workers overrides the default number of worker processes (0 = default).
	Workers func(tier string) int
	// Budget in seconds per tier (internal deadline; 0 = default)
	Budget func(tier string) int
}

var props = map[string]*PropDef{}

func register(p *PropDef) { props[p.ID] = p }

type Merged struct {
	Prop       string
	Tier       string
	Counters   map[string]int64
	Outcomes   map[string]int64
	Samples    []any
	Classes    map[string]*classAgg
	Exhaustive bool
	Notes      []string
	Bounds     map[string]any
	StrayOut   int64
	Deaths     []string
	Blobs      map[int][]byte
	NShards    int
}

func envInt(name string, def int) int {
	if v := os.Getenv(name); v != "" {
		if n, err := strconv.Atoi(v); err == nil {
			return n
		}
	}
	return def
}

func seedFromEnv() int {
	return envInt("VERIF_SEED", 0)
}

func runCheck(id, tier string) int {
	p := props[id]
	if p == nil {
		fatalf("unknown property %q", id)
	}
	start := time.Now()
	nw := envInt("VERIF_WORKERS", 16)
	if p.Workers != nil {
		if w := p.Workers(tier); w > 0 {
			nw = w
		}
	}
	budget := 300
	if tier == "thorough" {
		budget = 3000
	}
	if p.Budget != nil {
		if b := p.Budget(tier); b > 0 {
			budget = b
		}
	}
	budget = envInt("VERIF_BUDGET_S", budget)
	scratch, err := os.MkdirTemp("", "spdxmc-"+id+"-")
	if err != nil {
		fatalf("mkdtemp: %v", err)
	}
	defer os.RemoveAll(scratch)

	m := &Merged{Prop: id, Tier: tier, Counters: map[string]int64{}, Outcomes: map[string]int64{},
		Classes: map[string]*classAgg{}, Exhaustive: true, Bounds: map[string]any{}, NShards: nw}
	if p.Pre != nil {
		if err := p.Pre(m, scratch); err != nil {
			fmt.Fprintf(os.Stderr, "spdxmc: %s: preparation failed (infrastructure failure, not a verdict):\n%v\n", id, err)
			os.RemoveAll(scratch)
			os.Exit(2)
		}
	}
	var mu sync.Mutex
	var wg sync.WaitGroup
	for s := 0; s < nw; s++ {
		wg.Add(1)
		go func(s int) {
			defer wg.Done()
			res, deaths, stray := superviseShard(p, tier, s, nw, scratch, budget)
			mu.Lock()
			defer mu.Unlock()
			m.Deaths = append(m.Deaths, deaths...)
			m.StrayOut += stray
			if res == nil {
				m.Exhaustive = false
				m.Notes = append(m.Notes, fmt.Sprintf("shard %d produced no result", s))
				return
			}
			mergeShard(m, res)
		}(s)
	}
	wg.Wait()
	sort.Strings(m.Deaths)
	sort.Strings(m.Notes)
	m.Notes = uniq(m.Notes)
	if p.Post != nil {
		p.Post(m)
	}
	// worker deaths are C03 events (fatal runtime errors are panics the caller cannot even recover)
	for _, d := range m.Deaths {
		if id == "C03" || id == "C14" {
			v := Violation{Prop: id, Kind: "death", Class: "worker-death", Key: "death:" + d,
				Msg: "worker process died or hung while executing: " + d, Size: len(d), Case: mustJSON(map[string]string{"desc": d, "property": id})}
			addViolation(m, v)
		} else {
			m.Counters["skipped_worker_death"]++
			m.Notes = append(m.Notes, "worker died on case (skipped here, belongs to C03): "+d)
		}
	}
	return finish(p, m, start, scratch)
}

func uniq(s []string) []string {
	out := s[:0]
	for i, x := range s {
		if i == 0 || x != s[i-1] {
			out = append(out, x)
		}
	}
	return out
}

func addViolation(m *Merged, v Violation) {
	a := m.Classes[v.Class]
	if a == nil {
		a = &classAgg{}
		m.Classes[v.Class] = a
	}
	a.Count++
	a.Best = append(a.Best, v)
}

func mergeShard(m *Merged, r *ShardResult) {
	for k, v := range r.Counters {
		m.Counters[k] += v
	}
	for k, v := range r.Outcomes {
		m.Outcomes[k] += v
	}
	if len(m.Samples) < 16 {
		for _, s := range r.Samples {
			if len(m.Samples) < 16 {
				m.Samples = append(m.Samples, s)
			}
		}
	}
	for k, a := range r.Classes {
		b := m.Classes[k]
		if b == nil {
			b = &classAgg{}
			m.Classes[k] = b
		}
		b.Count += a.Count
		b.Best = append(b.Best, a.Best...)
	}
	if !r.Exhaustive {
		m.Exhaustive = false
	}
	m.Notes = append(m.Notes, r.Notes...)
	for k, v := range r.Bounds {
		m.Bounds[k] = v
	}
	m.StrayOut += r.StrayOut
	if r.Blob != nil {
		if m.Blobs == nil {
			m.Blobs = map[int][]byte{}
		}
		m.Blobs[r.Shard] = r.Blob
	}
}

// superviseShard runs one shard, restarting the worker (with the fatal case on a skip list)
// when it dies or hangs.
func superviseShard(p *PropDef, tier string, shard, n int, scratch string, budget int) (*ShardResult, []string, int64) {
	var skips []string
	var deaths []string
	var stray int64
	watchdog := time.Duration(envInt("VERIF_WATCHDOG_S", 150)) * time.Second
	// a worker that dies or hangs is restarted with the fatal case skipped: up to 8 times where deaths are
	// the subject (C03, C14), up to 3 times elsewhere (the shard is then given up: exhaustive=false)
	maxAttempts := 3
	if p.ID == "C03" || p.ID == "C14" {
		maxAttempts = 8
	}
	for attempt := 0; attempt < maxAttempts; attempt++ {
		base := filepath.Join(scratch, fmt.Sprintf("s%d-a%d", shard, attempt))
		out := base + ".json"
		jpath := base + ".journal"
		skipPath := base + ".skip"
		if len(skips) > 0 {
			b, _ := json.Marshal(skips)
			os.WriteFile(skipPath, b, 0o600)
		}
		fo, _ := os.Create(base + ".stdout")
		fe, _ := os.Create(base + ".stderr")
		cmd := exec.Command(os.Args[0], "worker", p.ID, tier, strconv.Itoa(shard), strconv.Itoa(n), out, jpath, skipPath, strconv.Itoa(budget))
		cmd.Stdout, cmd.Stderr = fo, fe
		cmd.Env = append(os.Environ(), "GOMAXPROCS="+workerProcs(p.ID), "GOTRACEBACK=single")
		if err := cmd.Start(); err != nil {
			fatalf("start worker: %v", err)
		}
		done := make(chan error, 1)
		go func() { done <- cmd.Wait() }()
		var lastSeq uint64
		lastChange := time.Now()
		hung := false
		var werr error
	loop:
		for {
			select {
			case werr = <-done:
				break loop
			case <-time.After(500 * time.Millisecond):
				seq, _ := readJournal(jpath)
				if seq != lastSeq {
					lastSeq, lastChange = seq, time.Now()
				} else if seq != 0 && time.Since(lastChange) > watchdog {
					hung = true
					cmd.Process.Kill()
					werr = <-done
					break loop
				}
			}
		}
		fo.Close()
		fe.Close()
		stOut, _ := os.Stat(base + ".stdout")
		stErr, _ := os.Stat(base + ".stderr")
		if werr == nil && !hung {
			if stOut != nil {
				stray += stOut.Size()
			}
			if stErr != nil {
				stray += stErr.Size()
			}
			b, err := os.ReadFile(out)
			if err != nil {
				return nil, deaths, stray
			}
			var r ShardResult
			if err := json.Unmarshal(b, &r); err != nil {
				return nil, deaths, stray
			}
			return &r, deaths, stray
		}
		_, desc := readJournal(jpath)
		tail := tailFile(base+".stderr", 400)
		why := "died"
		if hung {
			why = fmt.Sprintf("hung > %v", watchdog)
		}
		if desc == "" {
			// died before the first case: infrastructure problem
			fmt.Fprintf(os.Stderr, "spdxmc: worker %d of %s %s before its first case: %v\n%s\n", shard, p.ID, why, werr, tail)
			return nil, deaths, stray
		}
		first := strings.SplitN(strings.TrimSpace(tail), "\n", 2)[0]
		deaths = append(deaths, fmt.Sprintf("%s [%s: %s]", desc, why, first))
		skips = append(skips, desc)
	}
	return nil, deaths, stray
}

func workerProcs(id string) string {
	if id == "C13" {
		return "16"
	}
	return "1"
}

func tailFile(path string, n int) string {
	b, err := os.ReadFile(path)
	if err != nil {
		return ""
	}
	// the head of a Go fatal error is the informative part
	if len(b) > n {
		b = b[:n]
	}
	return string(b)
}

// ---------------------------------------------------------------------------------------------

type knownFinding struct {
	Prop, Key, Text string
}

func loadKnown() []knownFinding {
	f, err := os.Open(filepath.Join(verifRoot, "known_findings.txt"))
	if err != nil {
		return nil
	}
	defer f.Close()
	var out []knownFinding
	sc := bufio.NewScanner(f)
	sc.Buffer(make([]byte, 1<<20), 1<<20)
	for sc.Scan() {
		line := strings.TrimSpace(sc.Text())
		if !strings.HasPrefix(line, "known:") {
			continue // "fixed:" lines and comments suppress nothing
		}
		rest := strings.TrimSpace(strings.TrimPrefix(line, "known:"))
		// known: property=<ID> key=<quoted or bare> <text>
		var kf knownFinding
		fields := strings.SplitN(rest, " ", 2)
		if len(fields) < 2 || !strings.HasPrefix(fields[0], "property=") {
			continue
		}
		kf.Prop = strings.TrimPrefix(fields[0], "property=")
		rest = strings.TrimSpace(fields[1])
		if !strings.HasPrefix(rest, "key=") {
			continue
		}
		rest = strings.TrimPrefix(rest, "key=")
		if strings.HasPrefix(rest, "\"") {
			// Go-quoted key
			q, err := strconv.QuotedPrefix(rest)
			if err != nil {
				continue
			}
			kf.Key, _ = strconv.Unquote(q)
			kf.Text = strings.TrimSpace(rest[len(q):])
		} else {
			fs := strings.SplitN(rest, " ", 2)
			kf.Key = fs[0]
			if len(fs) > 1 {
				kf.Text = strings.TrimSpace(fs[1])
			}
		}
		out = append(out, kf)
	}
	return out
}

func finish(p *PropDef, m *Merged, start time.Time, scratch string) int {
	known := loadKnown()
	isKnown := func(v Violation) *knownFinding {
		for i := range known {
			if known[i].Prop == p.ID && known[i].Key == v.Key {
				return &known[i]
			}
		}
		return nil
	}
	// order classes by size of their smallest member
	var classes []string
	for k, a := range m.Classes {
		trimBest(a, 3)
		classes = append(classes, k)
	}
	sort.Slice(classes, func(i, j int) bool {
		a, b := m.Classes[classes[i]], m.Classes[classes[j]]
		if a.Best[0].Size != b.Best[0].Size {
			return a.Best[0].Size < b.Best[0].Size
		}
		return classes[i] < classes[j]
	})
	var cands []Violation
	for _, k := range classes {
		cands = append(cands, m.Classes[k].Best...)
	}
	// re-verify candidates 5x in a fresh process
	confirmed := reverify(cands, scratch)
	var total, suppressed int64
	for _, a := range m.Classes {
		total += a.Count
	}
	knownPrinted := map[string]bool{}
	written := 0
	unknownClasses := 0
	os.MkdirAll(filepath.Join(outRoot, "replays"), 0o755)
	var vioLines []string
	for _, k := range classes {
		a := m.Classes[k]
		classHasUnknown := false
		for _, v := range a.Best {
			st := confirmed[v.Key+"\x00"+v.Kind]
			if st == "gone" {
				m.Notes = append(m.Notes, "non-reproducible deviation (5 fresh re-executions all passed): "+v.Key)
				m.Counters["nonreproducible"]++
				// a non-reproducible deviation in single-goroutine code is itself nondeterminism; still a violation
			}
			if kf := isKnown(v); kf != nil {
				suppressed++
				if !knownPrinted[kf.Key] {
					knownPrinted[kf.Key] = true
					fmt.Printf("KNOWN-FINDING: property=%s %s\n", p.ID, kf.Text)
				}
				continue
			}
			classHasUnknown = true
			if written >= 20 {
				continue
			}
			h := sha1.Sum([]byte(v.Kind + "\x00" + v.Key))
			path := filepath.Join(outRoot, "replays", p.ID+"-"+hex.EncodeToString(h[:6])+".json")
			b, _ := json.MarshalIndent(v, "", " ")
			os.WriteFile(path, b, 0o644)
			written++
			vioLines = append(vioLines, fmt.Sprintf("VIOLATION property=%s replay=%s", p.ID, path))
			fmt.Fprintf(os.Stderr, "  [%s] %s (class %s, %d cases)\n", p.ID, v.Msg, k, a.Count)
		}
		if classHasUnknown {
			unknownClasses++
		} else {
			// all of the class's reported members are known; but the class may contain other
			// keys that were not among the best: count them conservatively as unknown if the
			// class has more cases than known keys explain (keys are per-case for such classes).
		}
	}
	for _, l := range vioLines {
		fmt.Println(l)
	}
	var knownTotal int64
	for k, a := range m.Classes {
		if strings.HasPrefix(k, "known:") {
			knownTotal += a.Count
		}
	}
	nviol := int(total - knownTotal)
	suppressed = knownTotal
	exit := 0
	if len(vioLines) > 0 {
		exit = 1
	}
	var skippedPanics int64
	for k, v := range m.Counters {
		if strings.HasPrefix(k, "skipped_panic") || k == "skipped_worker_death" {
			skippedPanics += v
		}
	}
	if skippedPanics > 0 && p.ID != "C03" {
		fmt.Fprintf(os.Stderr, "%s: note: %d cases were skipped because the library panicked or killed a worker on them; a panic is a C03 matter and is reported by the C03 check, not here\n", p.ID, skippedPanics)
		m.Notes = append(m.Notes, fmt.Sprintf("%d cases skipped because the library panicked on them (see C03)", skippedPanics))
	}
	writeEvidence(p, m, start, nviol, int(suppressed))
	fmt.Fprintf(os.Stderr, "%s %s: states=%d transitions=%d evaluations=%d violations=%d (classes %d, known-suppressed %d) exhaustive=%v wall=%.1fs\n",
		p.ID, m.Tier, m.Counters["states"], m.Counters["transitions"], m.Counters["evaluations"], nviol, len(classes), suppressed, m.Exhaustive, time.Since(start).Seconds())
	return exit
}

func reverify(cands []Violation, scratch string) map[string]string {
	res := map[string]string{}
	if len(cands) == 0 {
		return res
	}
	in := filepath.Join(scratch, "reverify-in.json")
	out := filepath.Join(scratch, "reverify-out.json")
	b, _ := json.Marshal(cands)
	os.WriteFile(in, b, 0o600)
	cmd := exec.Command(os.Args[0], "reverify", in, out)
	cmd.Env = append(os.Environ(), "GOMAXPROCS=1")
	fo, _ := os.Create(filepath.Join(scratch, "reverify.stdout"))
	cmd.Stdout, cmd.Stderr = fo, fo
	cmd.Run()
	fo.Close()
	ob, err := os.ReadFile(out)
	if err == nil {
		json.Unmarshal(ob, &res)
	}
	return res
}

func writeEvidence(p *PropDef, m *Merged, start time.Time, nviol, suppressed int) {
	c := m.Counters
	states := c["states"]
	trans := c["transitions"]
	if states < 1 {
		states = 1
	}
	if trans < 1 {
		trans = 1
	}
	samples := m.Samples
	if len(samples) == 0 {
		samples = []any{"(no sample recorded)"}
	}
	extra := map[string]int64{}
	for k, v := range c {
		switch k {
		case "states", "transitions", "traces", "evaluations", "nontrivial":
		default:
			extra[k] = v
		}
	}
	cov := map[string]any{
		"states":                        states,
		"transitions":                   trans,
		"traces_validated_against_impl": c["traces"],
		"evaluations":                   c["evaluations"],
		"distinct_nontrivial":           c["nontrivial"],
		"rule":                          p.Rule,
		"samples":                       samples,
		"exhaustive":                    m.Exhaustive,
		"bounds":                        m.Bounds,
		"distinct_outcomes":             len(m.Outcomes),
		"outcomes":                      topOutcomes(m.Outcomes, 40),
		"counters":                      extra,
		"explorer":                      p.Explorer,
		"notes":                         m.Notes,
		"worker_deaths":                 m.Deaths,
		"stray_output_bytes":            m.StrayOut,
		"known_findings_suppressed":     suppressed,
	}
	ev := map[string]any{
		"property_id": p.ID,
		"tier":        m.Tier,
		"seed":        seedFromEnv(),
		"level":       "model_checking",
		"coverage":    cov,
		"assumptions": p.Assumptions,
		"wall_s":      time.Since(start).Seconds(),
		"violations":  nviol,
	}
	b, _ := json.MarshalIndent(ev, "", " ")
	dir := filepath.Join(outRoot, "evidence")
	os.MkdirAll(dir, 0o755)
	tmp := filepath.Join(dir, "."+p.ID+".json.tmp")
	os.WriteFile(tmp, b, 0o644)
	os.Rename(tmp, filepath.Join(dir, p.ID+".json"))
}

func topOutcomes(o map[string]int64, n int) map[string]int64 {
	type kv struct {
		k string
		v int64
	}
	var l []kv
	for k, v := range o {
		l = append(l, kv{k, v})
	}
	sort.Slice(l, func(i, j int) bool {
		if l[i].v != l[j].v {
			return l[i].v > l[j].v
		}
		return l[i].k < l[j].k
	})
	out := map[string]int64{}
	for i, e := range l {
		if i >= n {
			break
		}
		out[e.k] = e.v
	}
	return out
}
