package main

// C09 — letter case of listed ids never matters; output casing canonical.
// Explorer E1, relational: every listed id x case variants x contexts; oracle = identical validity,
// Satisfies result and ExtractLicenses output as with the canonical spelling.

import (
	"encoding/json"
	"fmt"
	"strings"
)

type c09Case struct {
	ID      string `json:"id"`
	Variant string `json:"variant"`
	Role    string `json:"list"` // license | exception
	// Rel: instead of the standard contexts, the id is set against its name relatives (range-table ids
	// whose text is a prefix of it) carrying each listed exception, as term and as allowed entry
	Rel bool `json:"name_relative_contexts,omitempty"`
}

func c09RelContexts(id string) []c09Ctx {
	var l []c09Ctx
	for _, m := range nameRelatives(id) {
		for _, e := range T().Exceptions {
			l = append(l, c09Ctx{"allowed entry vs name relative " + m + " WITH " + e, m + " WITH " + e, []string{hole}},
				c09Ctx{"term vs name relative " + m + " WITH " + e, hole, []string{m + " WITH " + e}})
		}
	}
	return l
}

type c09Ctx struct {
	name    string
	expr    string
	allowed []string
}

func c09Contexts(role string, neighbour string) []c09Ctx {
	if role == "exception" {
		return []c09Ctx{
			{"after WITH", "MIT WITH " + hole, []string{"MIT WITH " + hole}},
			{"after WITH vs canonical", "GPL-2.0+ WITH " + hole, []string{"GPL-3.0 WITH \x02"}},
			{"canonical vs variant allowed", "GPL-3.0 WITH \x02", []string{"GPL-2.0+ WITH " + hole}},
			{"inside tree", "(MIT WITH " + hole + " AND MIT) OR LicenseRef-a", []string{"MIT", "MIT WITH \x02"}},
			{"alone (must stay invalid)", hole, []string{"MIT"}},
			{"after a rewritten -or-later+ prefix", "Apache-2.0-or-later+ AND MIT WITH " + hole, []string{"Apache-2.0", "MIT WITH \x02"}},
		}
	}
	l := []c09Ctx{
		{"alone", hole, []string{"\x02"}},
		{"alone vs Zlib", hole, []string{"Zlib"}},
		{"with +", hole + "+", []string{"\x02"}},
		{"before WITH", hole + " WITH Bison-exception-2.2", []string{"\x02 WITH Bison-exception-2.2"}},
		{"inside tree", "(" + hole + " AND MIT) OR LicenseRef-a", []string{"MIT", "\x02"}},
		{"inside tree, tight", "(" + hole + ")AND(MIT)", []string{"MIT", "\x02"}},
		{"allowed entry vs canonical", "\x02", []string{hole}},
		{"allowed entry with WITH", "\x02 WITH Bison-exception-2.2", []string{"Zlib", hole + " WITH Bison-exception-2.2"}},
		{"allowed entry vs Zlib", "Zlib", []string{hole}},
		{"after a rewritten -or-later+ prefix", "Apache-2.0-or-later+ AND " + hole, []string{"Apache-2.0", "\x02"}},
		{"after two rewritten prefixes", "(MIT-or-later OR Zlib-or-later+) AND " + hole + " AND LicenseRef-a", []string{"MIT", "LicenseRef-a", "\x02"}},
	}
	for _, nb := range strings.Fields(neighbour) {
		l = append(l, c09Ctx{"allowed entry vs family member " + nb + "+", nb + "+", []string{hole}},
			c09Ctx{"term vs family member " + nb + "+", hole, []string{nb + "+"}},
			c09Ctx{"allowed entry vs family member " + nb, nb, []string{hole}},
			c09Ctx{"term vs family member " + nb, hole, []string{nb}},
			c09Ctx{"allowed entry+ vs family member " + nb, nb, []string{hole + "+"}})
	}
	return l
}

func fill2(s, v, canon string) string {
	return strings.ReplaceAll(strings.ReplaceAll(s, hole, v), "\x02", canon)
}

type c09Obs struct {
	Valid     int
	Ok, IsErr bool
	Ext       string
	ExtErr    bool
	Panic     bool
}

func c09Observe(cx c09Ctx, v, canon string) c09Obs {
	expr := fill2(cx.expr, v, canon)
	al := make([]string, len(cx.allowed))
	for i, a := range cx.allowed {
		al[i] = fill2(a, v, canon)
	}
	var o c09Obs
	o.Valid = Valid1(expr)
	r := Sat(expr, al)
	e := Ext(expr)
	o.Ok, o.IsErr = r.Ok, r.IsErr
	o.Ext, o.ExtErr = strings.Join(e.List, "|"), e.IsErr
	o.Panic = o.Valid < 0 || r.Panic != "" || e.Panic != ""
	return o
}

func c09Check(cs c09Case) (msg string, skipped bool, n int) {
	neighbour := ""
	if cs.Role == "license" {
		neighbour = c09Neighbour(cs.ID)
	}
	ctxs := c09Contexts(cs.Role, neighbour)
	if cs.Rel {
		ctxs = c09RelContexts(cs.ID)
	}
	for _, cx := range ctxs {
		n++
		o1 := c09Observe(cx, cs.ID, cs.ID)
		o2 := c09Observe(cx, cs.Variant, cs.ID)
		if o1.Panic || o2.Panic {
			skipped = true
			continue
		}
		if o1 != o2 {
			return fmt.Sprintf("case variant %q of %q behaves differently in context %q (expr %q, allowed %q): canonical valid=%v result=%v err=%v extract=[%s]; variant valid=%v result=%v err=%v extract=[%s]",
				cs.Variant, cs.ID, cx.name, fill2(cx.expr, cs.Variant, cs.ID), cx.allowed, o1.Valid == 1, o1.Ok, o1.IsErr, o1.Ext, o2.Valid == 1, o2.Ok, o2.IsErr, o2.Ext), skipped, n
		}
		// canonical output casing
		if !o2.ExtErr && ((cs.Role == "license" && cx.name == "alone") || (cs.Role == "exception" && cx.name == "after WITH")) {
			got := strings.TrimSuffix(o2.Ext, "+")
			if cs.Role == "exception" {
				got = strings.TrimPrefix(got, "MIT WITH ")
			}
			t := T()
			var listed string
			var ok bool
			if cs.Role == "exception" {
				listed, ok = t.IsExc(got)
			} else if listed, ok = t.IsActive(got); !ok {
				listed, ok = t.IsDepr(got)
			}
			if !ok || listed != got {
				return fmt.Sprintf("ExtractLicenses(%q) = [%s]: %q is not the list's own spelling of a listed id", fill2(cx.expr, cs.Variant, cs.ID), o2.Ext, got), skipped, n
			}
		}
	}
	return "", skipped, n
}

var neighbourCache = map[string]string{}

func c09Neighbour(id string) string {
	if v, ok := neighbourCache[id]; ok {
		return v
	}
	pos := tablePos()
	n := NormTerm(id)
	res := ""
	if p, ok := pos[n.ID]; ok && p.Count == 1 {
		// one member of every other version step of the family (space separated)
		fam := T().Ranges[p.Fam]
		var all []string
		for j, st := range fam {
			if j != p.Ver && len(st) > 0 && !strings.HasSuffix(st[0], "-or-later") {
				all = append(all, st[0])
			}
		}
		if len(all) > 4 {
			all = append(all[:2], all[len(all)-2:]...)
		}
		res = strings.Join(all, " ")
	}
	neighbourCache[id] = res
	return res
}

func caseVariants(id string, exhaustiveLetters int) []string {
	seen := map[string]bool{id: true}
	var out []string
	add := func(s string) {
		if !seen[s] {
			seen[s] = true
			out = append(out, s)
		}
	}
	add(strings.ToLower(id))
	add(strings.ToUpper(id))
	add(swapCase(id))
	var letters []int
	for i := 0; i < len(id); i++ {
		ch := id[i]
		if (ch >= 'a' && ch <= 'z') || (ch >= 'A' && ch <= 'Z') {
			letters = append(letters, i)
		}
	}
	for _, i := range letters {
		b := []byte(id)
		b[i] ^= 0x20
		add(string(b))
	}
	if len(letters) <= exhaustiveLetters {
		for m := 0; m < 1<<uint(len(letters)); m++ {
			b := []byte(id)
			for k, i := range letters {
				if m&(1<<uint(k)) != 0 {
					b[i] ^= 0x20
				}
			}
			add(string(b))
		}
	}
	return out
}

func init() {
	kinds["c09.variant"] = func(raw json.RawMessage) string {
		var cs c09Case
		if err := json.Unmarshal(raw, &cs); err != nil {
			return "bad case"
		}
		msg, _, _ := c09Check(cs)
		return msg
	}
	kinds["c09.table"] = func(raw json.RawMessage) string {
		var cs c09Case
		json.Unmarshal(raw, &cs)
		for _, f := range c12Static() {
			if f[0] == "fold:"+cs.ID {
				return f[1]
			}
		}
		return ""
	}
	register(&PropDef{
		ID:       "C09",
		Title:    "letter case of listed ids never matters; output casing canonical",
		Explorer: "E1 exhaustive id x case-variant x context enumeration, differential oracle against the canonical spelling",
		Rule: "every id of the three lists x {lower, upper, swapped, every single-letter flip} (thorough: all 2^k variants for ids with <= 10 letters) x contexts {alone, with +, before/after WITH, inside a tree (loose and tight), as allowed entry against canonical / family neighbour+ / Zlib}; every id whose name starts with the text of a range-table id (GPL-2.0-with-GCC-exception, GPL-2.0-only ...) x {lower, upper, swapped} x that relative WITH every listed exception, as term and as allowed entry; " +
			"state = (id, variant), transitions = 6 calls per context; only the listed-id portion is mutated; non-trivial = variants that differ from the canonical spelling (all of them) of ids with at least one letter",
		Assumptions: []string{"only listed ids are case-mutated; operators, LicenseRef-/DocumentRef-, suffixes and reference names are left alone (outside the claim)"},
		Run:         c09Run,
	})
}

func c09Run(c *Ctx) {
	t := T()
	exh := 6
	if c.Thorough() {
		exh = 12
	}
	c.Bound("variants", map[string]any{"all_2^k_up_to_letters": exh, "ids": len(t.Active) + len(t.Deprecated) + len(t.Exceptions)})
	if c.Mine(0) {
		for _, f := range c12Static() {
			if strings.HasPrefix(f[0], "fold:") {
				c.Report(Violation{Kind: "c09.table", Class: "table-side-condition", Key: f[0], Msg: f[1], Size: 1, Case: mustJSON(c09Case{ID: strings.TrimPrefix(f[0], "fold:")})})
			}
		}
	}
	var idx int64
	do := func(id, role string) bool {
		for _, v := range caseVariants(id, exh) {
			idx++
			if !c.Mine(idx) {
				continue
			}
			if c.Expired() {
				return false
			}
			if !c.Begin(role + " " + id + " as " + v) {
				continue
			}
			cs := c09Case{ID: id, Variant: v, Role: role}
			msg, skipped, n := c09Check(cs)
			c.Inc("states")
			c.Add("transitions", int64(6*n))
			c.Add("traces", int64(6*n))
			c.Inc("evaluations")
			c.Inc("nontrivial")
			if skipped {
				c.Inc("contexts_skipped_panic")
			}
			c.Outcome(role)
			c.Sample(func() any { return map[string]any{"id": id, "variant": v, "list": role, "contexts": n} })
			if msg != "" {
				c.Report(Violation{Kind: "c09.variant", Class: "case-sensitive:" + role, Key: id + " as " + v, Msg: msg, Size: len(id), Case: mustJSON(cs)})
			}
		}
		return true
	}
	for _, id := range t.AllLicenseIDs() {
		if !do(id, "license") {
			return
		}
	}
	// ids whose name starts with the text of a range-table id: lower / upper / swapped case against that
	// relative WITH every listed exception
	nrel := 0
	for _, id := range t.AllLicenseIDs() {
		if len(nameRelatives(id)) == 0 {
			continue
		}
		nrel++
		cv := caseVariants(id, 0)
		if len(cv) > 3 {
			cv = cv[:3]
		}
		for _, v := range cv {
			idx++
			if !c.Mine(idx) {
				continue
			}
			if c.Expired() {
				return
			}
			if !c.Begin("license " + id + " as " + v + " vs name relatives") {
				continue
			}
			cs := c09Case{ID: id, Variant: v, Role: "license", Rel: true}
			msg, skipped, n := c09Check(cs)
			c.Inc("states")
			c.Add("transitions", int64(6*n))
			c.Add("traces", int64(6*n))
			c.Inc("evaluations")
			c.Inc("nontrivial")
			if skipped {
				c.Inc("contexts_skipped_panic")
			}
			c.Outcome("license-vs-name-relatives")
			if msg != "" {
				c.Report(Violation{Kind: "c09.variant", Class: "case-sensitive:license-vs-name-relative", Key: id + " as " + v + " (name relatives)", Msg: msg, Size: len(id) + 1, Case: mustJSON(cs)})
			}
		}
	}
	c.Bound("name_relative_contexts", map[string]any{"ids_with_name_relatives": nrel, "exceptions": len(t.Exceptions), "variants": "lower, upper, swapped"})
	for _, id := range t.Exceptions {
		if !do(id, "exception") {
			return
		}
	}
}
