package main

// C11 — '+' reaches exactly the later versions of the same family, in natural version order;
// the family table is well-formed. Explorer E1 over family x version pairs + complete table audit.

import (
	"encoding/json"
	"fmt"
	"strings"
)

type c11Case struct {
	Kind   string `json:"kind"` // reach | cross | audit
	A      string `json:"a,omitempty"`
	B      string `json:"b,omitempty"`
	Want   bool   `json:"want,omitempty"`
	Family int    `json:"family"`
	Audit  string `json:"audit,omitempty"`
}

// c11Reach: Satisfies(b, [a]) and Satisfies(a, [b]) must both equal want.
func c11Reach(a, b string, want bool) (msg string, skip bool) {
	r1 := Sat(b, []string{a})
	r2 := Sat(a, []string{b})
	if r1.Panic != "" || r2.Panic != "" || r1.IsErr || r2.IsErr {
		return "", true
	}
	if r1.Ok != want {
		return fmt.Sprintf("Satisfies(%q, [%q]) = %v, natural version order says %v", b, a, r1.Ok, want), false
	}
	if r2.Ok != want {
		return fmt.Sprintf("Satisfies(%q, [%q]) = %v, natural version order says %v", a, b, r2.Ok, want), false
	}
	return "", false
}

// tableAudit returns every well-formedness finding of the family table as (key, message, family).
func tableAudit() [][3]string {
	t := T()
	var out [][3]string
	add := func(key, msg string, fam int) { out = append(out, [3]string{key, msg, fmt.Sprint(fam)}) }
	pos := tablePos()
	reported := map[string]bool{}
	fams := Families()
	for _, f := range fams {
		for j, st := range f.Steps {
			if len(st) == 0 {
				add(fmt.Sprintf("empty-step:%d/%d", f.Index, j), fmt.Sprintf("family %d has an empty version step %d", f.Index, j), f.Index)
			}
			for _, id := range st {
				if !t.IsLicense(id) {
					add("unlisted:"+id, fmt.Sprintf("table entry %q (family %d) is not on the active or deprecated list", id, f.Index), f.Index)
				} else if x, _ := t.IsActive(id); x != id {
					if y, _ := t.IsDepr(id); y != id {
						add("casing:"+id, fmt.Sprintf("table entry %q is not spelled as in the list", id), f.Index)
					}
				}
				if p := pos[id]; p.Count > 1 && !reported[id] {
					reported[id] = true
					add("dup:"+id, fmt.Sprintf("table entry %q sits at %d positions (lookup returns the first, later ones are unreachable)", id, p.Count), f.Index)
				}
			}
		}
		if !f.Shadowed && f.Base == "" {
			first := ""
			if len(f.Steps) > 0 && len(f.Steps[0]) > 0 {
				first = f.Steps[0][0]
			}
			var names []string
			for _, st := range f.Steps {
				names = append(names, st...)
			}
			add("mixed-family:"+first, fmt.Sprintf("family %d groups ids that share no common name stem (%s): ids of different licenses would reach each other through '+'", f.Index, strings.Join(names, ", ")), f.Index)
		}
		if f.Shadowed || f.Base == "" {
			continue
		}
		for _, st := range f.Steps {
			for _, id := range st {
				if !strings.HasPrefix(stripSuffix(id), f.Base) {
					add("mixed-family:"+id, fmt.Sprintf("table entry %q does not share the name stem %q of its family %d", id, f.Base, f.Index), f.Index)
				}
			}
		}
		// ascending, one version per step (entries spelled -or-later are never looked up: position unobservable)
		prev := ""
		for j, st := range f.Steps {
			stepVer := ""
			for _, id := range st {
				if strings.HasSuffix(id, "-or-later") || !f.IsMember(id) {
					continue
				}
				r := f.rem(id)
				if stepVer == "" {
					stepVer = r
				} else if cmpVer(stepVer, r) != 0 {
					add(fmt.Sprintf("mixed-step:%s", id), fmt.Sprintf("family %d step %d mixes versions %q and %q (%s)", f.Index, j, stepVer, r, id), f.Index)
				}
			}
			if stepVer == "" {
				continue
			}
			if prev != "" && cmpVer(prev, stepVer) >= 0 {
				add(fmt.Sprintf("order:%s%s", f.Base, stepVer), fmt.Sprintf("family %d (%s): step %d version %q does not ascend from %q", f.Index, f.Base, j, stepVer, prev), f.Index)
			}
			prev = stepVer
		}
		// completeness: every listed version of a covered family is in the table
		for _, id := range f.Members {
			if strings.HasSuffix(id, "-or-later") {
				continue // looked up through its base id
			}
			if _, ok := pos[id]; !ok {
				add("missing:"+id, fmt.Sprintf("%q is a listed version of family %d (%s*) but is not in the family table", id, f.Index, f.Base), f.Index)
			}
		}
	}
	return out
}

func init() {
	kinds["c11.case"] = func(raw json.RawMessage) string {
		var cs c11Case
		if err := json.Unmarshal(raw, &cs); err != nil {
			return "bad case"
		}
		if cs.Kind == "audit" {
			for _, a := range tableAudit() {
				if a[0] == cs.Audit {
					return a[1]
				}
			}
			return ""
		}
		if cs.Kind == "reach-expr" {
			r := Sat(cs.A, []string{cs.B})
			if r.Panic == "" && !r.IsErr && r.Ok != cs.Want {
				return fmt.Sprintf("Satisfies(%q, [%q]) = %v, natural version order says %v", cs.A, cs.B, r.Ok, cs.Want)
			}
			return ""
		}
		if cs.Kind == "reach-list" {
			l := strings.Split(cs.A, "\x00")
			r := Sat(cs.B, l)
			if r.Panic == "" && !r.IsErr && r.Ok != cs.Want {
				return fmt.Sprintf("Satisfies(%q, %q) = %v, natural version order says %v", cs.B, l, r.Ok, cs.Want)
			}
			return ""
		}
		msg, _ := c11Reach(cs.A, cs.B, cs.Want)
		return msg
	}
	register(&PropDef{
		ID:       "C11",
		Title:    "'+' reaches exactly the later versions of the same family; table well-formed",
		Explorer: "E1 exhaustive family x version-pair x spelling enumeration vs R-ver (natural version order) + complete table audit",
		Rule: "for every family of the built table: every ordered pair of listed versions of that family by R-ver (including ids the table forgot) in spellings {plain,-only,+,-or-later}: Satisfies both ways vs natural order; " +
			"for every family every ordered pair of '+' entries (x+, z+) as a two-entry allowed list (also with an unrelated entry between them) x every member y; for every table id a and every listed id b that is not a version of a's family: no match through '+' in either role; for every listed id outside every family: its name neighbours, two unrelated ids and the first id of every family with '+' on either and on both sides (no match); plus a complete audit of the table (listedness, uniqueness, ascending order, one version per step, completeness); " +
			"state = (a-spelling, b-spelling) pair, 2 transitions each; non-trivial = pairs inside one family whose versions differ",
		Assumptions: []string{
			"R-ver (rterm.go): family base = longest common prefix cut at '-', version = remainder after -only/-or-later, compared run-wise; shapes not of the form N(.N)*[a-z]? and not present in the family are impure and only checked for listedness/uniqueness",
			"families shadowed by a duplicated id are audited for listedness/duplicates only; pairs involving a duplicated id are skipped (reported once as dup:<id>)",
		},
		Run: c11Run,
	})
}

func c11Spell(id string, plus bool) []string {
	var out []string
	for _, s := range spellings(id) {
		if s != strings.ToLower(id) && s != strings.ToUpper(id) || s == id {
			n := NormTerm(s)
			if n.Valid && n.Plus == plus {
				out = append(out, s)
			}
		}
	}
	return out
}

func c11Run(c *Ctx) {
	pos := tablePos()
	fams := Families()
	// audit (complete, finite) — done by shard 0
	if c.Mine(0) {
		aud := tableAudit()
		entries := 0
		for _, f := range fams {
			for _, st := range f.Steps {
				entries += len(st)
			}
		}
		c.Add("states", int64(entries))
		c.Add("transitions", int64(entries))
		c.Add("audit_entries", int64(entries))
		c.Bound("table", map[string]any{"families": len(fams), "entries": entries})
		for _, a := range aud {
			var fam int
			fmt.Sscan(a[2], &fam)
			c.Report(Violation{Kind: "c11.case", Class: "audit:" + strings.SplitN(a[0], ":", 2)[0], Key: a[0], Msg: a[1], Size: len(a[0]),
				Case: mustJSON(c11Case{Kind: "audit", Audit: a[0], Family: fam})})
		}
	}
	// behaviour inside families
	var idx int64
	for _, f := range fams {
		if f.Shadowed || f.Base == "" {
			c.Inc("families_skipped_shadowed")
			continue
		}
		for _, x := range f.Members {
			for _, y := range f.Members {
				idx++
				if !c.Mine(idx) {
					continue
				}
				if c.Expired() {
					return
				}
				if pos[stripSuffix(x)].Count > 1 || pos[stripSuffix(y)].Count > 1 || pos[x].Count > 1 || pos[y].Count > 1 {
					c.Inc("skipped_ambiguous")
					continue
				}
				cv := cmpVer(f.rem(y), f.rem(x)) // y relative to x
				// x+ vs y : match iff y >= x
				for _, a := range c11Spell(x, true) {
					for _, b := range c11Spell(y, false) {
						if !c.Begin(a + " | " + b) {
							continue
						}
						want := cv >= 0
						msg, skip := c11Reach(a, b, want)
						c.Inc("states")
						c.Add("transitions", 2)
						c.Inc("evaluations")
						if skip {
							c.Inc("skipped_error_or_panic")
							continue
						}
						c.Add("traces", 2)
						if cv != 0 {
							c.Inc("nontrivial")
						}
						c.Outcome(fmt.Sprintf("family:want=%v", want))
						c.Sample(func() any { return map[string]any{"allowed": a, "term": b, "expected_match": want, "family": f.Base} })
						if msg != "" {
							c.Report(Violation{Kind: "c11.case", Class: "reach", Key: "reach:" + a + "->" + b, Msg: msg, Size: len(a) + len(b),
								Case: mustJSON(c11Case{Kind: "reach", A: a, B: b, Want: want, Family: f.Index})})
						}
						// the same question with x+ inside a longer list next to plain x and entries that
						// sort before and after it (the allowed list is sorted and de-duplicated internally)
						if a == x+"+" && b == y {
							// x and x+ in ONE expression against y: the OR needs only the '+' term to reach y
							for _, e := range []string{x + " OR " + a, a + " OR " + x, "(" + x + " AND " + x + ") OR " + a} {
								r := Sat(e, []string{y})
								c.Inc("states")
								c.Inc("transitions")
								c.Inc("evaluations")
								if r.Panic != "" || r.IsErr {
									c.Inc("skipped_error_or_panic")
									continue
								}
								c.Inc("traces")
								lw := want || cv == 0
								if r.Ok != lw {
									c.Report(Violation{Kind: "c11.case", Class: "reach-in-expression", Key: "reach-expr:" + e + "->" + y, Size: len(e) + len(y),
										Msg:  fmt.Sprintf("Satisfies(%q, [%q]) = %v, natural version order says %v", e, y, r.Ok, lw),
										Case: mustJSON(c11Case{Kind: "reach-expr", A: e, B: y, Want: lw, Family: f.Index})})
								}
							}
							for _, l := range [][]string{{x, a, "0BSD", "zlib-acknowledgement"}, {"zlib-acknowledgement", a, x}, {a, x, "0BSD", x}} {
								r := Sat(b, l)
								c.Inc("states")
								c.Inc("transitions")
								c.Inc("evaluations")
								if r.Panic != "" || r.IsErr {
									c.Inc("skipped_error_or_panic")
									continue
								}
								c.Inc("traces")
								lw := want || cv == 0
								if r.Ok != lw {
									c.Report(Violation{Kind: "c11.case", Class: "reach-in-list", Key: "reach-list:" + strings.Join(l, ",") + "->" + b, Size: len(a) + len(b) + 10,
										Msg:  fmt.Sprintf("Satisfies(%q, %q) = %v, natural version order says %v", b, l, r.Ok, lw),
										Case: mustJSON(c11Case{Kind: "reach-list", A: strings.Join(l, "\x00"), B: b, Want: lw, Family: f.Index})})
								}
							}
						}
					}
				}
				// x vs y without plus: match iff same version
				if c.Thorough() || true {
					for _, a := range c11Spell(x, false) {
						for _, b := range c11Spell(y, false) {
							if a > b {
								continue
							}
							want := cv == 0
							msg, skip := c11Reach(a, b, want)
							c.Inc("states")
							c.Add("transitions", 2)
							c.Inc("evaluations")
							if skip {
								c.Inc("skipped_error_or_panic")
								continue
							}
							c.Add("traces", 2)
							if cv != 0 {
								c.Inc("nontrivial")
							}
							c.Outcome(fmt.Sprintf("family-noplus:want=%v", want))
							if msg != "" {
								c.Report(Violation{Kind: "c11.case", Class: "equal-version", Key: "eq:" + a + "<>" + b, Msg: msg, Size: len(a) + len(b),
									Case: mustJSON(c11Case{Kind: "reach", A: a, B: b, Want: want, Family: f.Index})})
							}
						}
					}
				}
			}
		}
	}
	// two '+' entries of ONE family in the allowed list, in both orders: y is covered iff it is at or
	// after the EARLIER of the two (an implementation that prunes or merges entries must keep the reach)
	for _, f := range fams {
		if f.Shadowed || f.Base == "" {
			continue
		}
		for _, x := range f.Members {
			for _, z := range f.Members {
				idx++
				if !c.Mine(idx) {
					continue
				}
				if c.Expired() {
					return
				}
				if x == z || pos[stripSuffix(x)].Count > 1 || pos[stripSuffix(z)].Count > 1 || pos[x].Count > 1 || pos[z].Count > 1 {
					continue
				}
				xs, zs := c11Spell(x, true), c11Spell(z, true)
				if len(xs) == 0 || len(zs) == 0 {
					continue
				}
				a1, a2 := xs[0], zs[0]
				for _, y := range f.Members {
					if pos[stripSuffix(y)].Count > 1 || pos[y].Count > 1 {
						continue
					}
					ys := c11Spell(y, false)
					if len(ys) == 0 {
						continue
					}
					b := ys[0]
					want := cmpVer(f.rem(y), f.rem(x)) >= 0 || cmpVer(f.rem(y), f.rem(z)) >= 0
					for _, l := range [][]string{{a1, a2}, {a1, "0BSD", a2}} {
						r := Sat(b, l)
						c.Inc("states")
						c.Inc("transitions")
						c.Inc("evaluations")
						if r.Panic != "" || r.IsErr {
							c.Inc("skipped_error_or_panic")
							continue
						}
						c.Inc("traces")
						c.Inc("nontrivial")
						c.Outcome(fmt.Sprintf("two-plus-entries:want=%v", want))
						if r.Ok != want {
							c.Report(Violation{Kind: "c11.case", Class: "reach-two-plus-entries", Key: "reach-list:" + strings.Join(l, ",") + "->" + b, Size: len(a1) + len(a2) + len(b) + 10,
								Msg:  fmt.Sprintf("Satisfies(%q, %q) = %v, natural version order says %v", b, l, r.Ok, want),
								Case: mustJSON(c11Case{Kind: "reach-list", A: strings.Join(l, "\x00"), B: b, Want: want, Family: f.Index})})
						}
					}
				}
			}
		}
	}
	// no match through '+' across families
	all := T().AllLicenseIDs()
	var tableIDs []string
	famOf := map[string]*Family{}
	for _, f := range fams {
		if f.Shadowed {
			continue
		}
		for _, st := range f.Steps {
			for _, id := range st {
				if strings.HasSuffix(id, "-or-later") || pos[id].Count > 1 {
					continue
				}
				if _, ok := famOf[id]; !ok {
					famOf[id] = f
					tableIDs = append(tableIDs, id)
				}
			}
		}
	}
	c.Bound("cross_family", map[string]any{"table_ids": len(tableIDs), "listed_ids": len(all)})
	for _, a := range tableIDs {
		f := famOf[a]
		idx++
		if !c.Mine(idx) {
			continue
		}
		ap := a + "+"
		if !NormTerm(ap).Valid {
			continue
		}
		for _, b := range all {
			if c.Expired() {
				return
			}
			if f.IsMember(b) || strings.HasSuffix(b, "+") {
				continue
			}
			nb := NormTerm(b)
			if !nb.Valid || nb.ID == NormTerm(a).ID {
				continue
			}
			if p, ok := pos[nb.ID]; ok && (p.Fam == f.Index || p.Count > 1) {
				continue
			}
			pairs := [][2]string{{ap, b}}
			if NormTerm(b + "+").Valid {
				pairs = append(pairs, [2]string{a, b + "+"}, [2]string{ap, b + "+"})
			}
			for _, pr := range pairs {
				msg, skip := c11Reach(pr[0], pr[1], false)
				c.Inc("states")
				c.Add("transitions", 2)
				c.Inc("evaluations")
				if skip {
					c.Inc("skipped_error_or_panic")
					continue
				}
				c.Add("traces", 2)
				c.Outcome("cross-family")
				if msg != "" {
					c.Report(Violation{Kind: "c11.case", Class: "cross-family", Key: "cross:" + pr[0] + "|" + pr[1], Msg: msg, Size: len(pr[0]) + len(pr[1]),
						Case: mustJSON(c11Case{Kind: "cross", A: pr[0], B: pr[1], Want: false, Family: f.Index})})
				}
			}
		}
	}
	// ids outside every family: '+' must not make them match anything but themselves - their neighbours
	// by name, two unrelated ids, and the first id of every family, with '+' on either and on both sides
	var firsts []string
	for _, f := range fams {
		if !f.Shadowed && len(f.Steps) > 0 && len(f.Steps[0]) > 0 {
			firsts = append(firsts, f.Steps[0][0])
		}
	}
	nout := 0
	for _, a := range all {
		if _, ok := pos[NormTerm(a).ID]; ok || strings.HasSuffix(a, "+") || !NormTerm(a+"+").Valid {
			continue
		}
		nout++
		idx++
		if !c.Mine(idx) {
			continue
		}
		partners := append(append([]string{}, idNeighbours(a)...), "MIT", "Zlib")
		partners = append(partners, firsts...)
		for _, b := range partners {
			if c.Expired() {
				return
			}
			nb := NormTerm(b)
			if !nb.Valid || nb.ID == NormTerm(a).ID || !NormTerm(b+"+").Valid {
				continue
			}
			if p, ok := pos[nb.ID]; ok && p.Count > 1 {
				continue
			}
			for _, pr := range [][2]string{{a + "+", b + "+"}, {a + "+", b}, {a, b + "+"}} {
				msg, skip := c11Reach(pr[0], pr[1], false)
				c.Inc("states")
				c.Add("transitions", 2)
				c.Inc("evaluations")
				if skip {
					c.Inc("skipped_error_or_panic")
					continue
				}
				c.Add("traces", 2)
				c.Outcome("outside-every-family")
				if msg != "" {
					c.Report(Violation{Kind: "c11.case", Class: "outside-every-family", Key: "cross:" + pr[0] + "|" + pr[1], Msg: msg, Size: len(pr[0]) + len(pr[1]),
						Case: mustJSON(c11Case{Kind: "cross", A: pr[0], B: pr[1], Want: false, Family: -1})})
				}
			}
		}
	}
	c.Bound("outside_every_family", map[string]any{"ids": nout, "partners": "name neighbours, MIT, Zlib, first id of every family", "forms": "a+ / b+, a+ / b, a / b+"})
}
