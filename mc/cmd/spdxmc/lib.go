package main

// Monitored wrappers around the three exported functions of the library under test.
// Every call: recover() (panic -> recorded, never propagated), argument slices are passed as
// private copies with sentinel-filled spare capacity and compared afterwards.

import (
	"fmt"
	"runtime"
	"strings"

	"github.com/github/go-spdx/v2/spdxexp"
)

const sentinel = "\x00verif-sentinel\x00"

var (
	libCalls     int64
	libPanics    int64
	argMutations int64
	lastMutation string
)

type SatRes struct {
	Ok    bool   `json:"ok"`
	Err   string `json:"err,omitempty"`
	IsErr bool   `json:"is_err"`
	Panic string `json:"panic,omitempty"`
}

type ValRes struct {
	Valid   bool     `json:"valid"`
	Invalid []string `json:"invalid"`
	NilInv  bool     `json:"invalid_is_nil,omitempty"`
	Panic   string   `json:"panic,omitempty"`
}

type ExtRes struct {
	List  []string `json:"list"`
	IsNil bool     `json:"list_is_nil"`
	Err   string   `json:"err,omitempty"`
	IsErr bool     `json:"is_err"`
	Panic string   `json:"panic,omitempty"`
}

func guardCopy(in []string) []string {
	if in == nil {
		return nil
	}
	out := make([]string, len(in), len(in)+2)
	copy(out, in)
	full := out[:cap(out)]
	for i := len(in); i < len(full); i++ {
		full[i] = sentinel
	}
	return out
}

func guardCheck(fn string, orig, passed []string) {
	if orig == nil {
		return
	}
	bad := len(passed) != len(orig)
	full := passed[:cap(passed)]
	for i := range full {
		if i < len(orig) {
			if full[i] != orig[i] {
				bad = true
			}
		} else if full[i] != sentinel {
			bad = true
		}
	}
	if bad {
		argMutations++
		lastMutation = fmt.Sprintf("%s: argument %q became %q", fn, orig, full)
	}
}

func panicInfo(r any) string {
	pcs := make([]uintptr, 64)
	n := runtime.Callers(3, pcs)
	frames := runtime.CallersFrames(pcs[:n])
	where := "?"
	for {
		f, more := frames.Next()
		if strings.Contains(f.Function, "go-spdx") {
			file := f.File
			if i := strings.LastIndex(file, "/"); i >= 0 {
				file = file[i+1:]
			}
			fn := f.Function
			if i := strings.LastIndex(fn, "/"); i >= 0 {
				fn = fn[i+1:]
			}
			where = fmt.Sprintf("%s (%s:%d)", fn, file, f.Line)
			break
		}
		if !more {
			break
		}
	}
	msg := fmt.Sprint(r)
	if len(msg) > 200 {
		msg = msg[:200]
	}
	return msg + " @ " + where
}

func Sat(expr string, allowed []string) (res SatRes) {
	libCalls++
	a := guardCopy(allowed)
	defer func() {
		if r := recover(); r != nil {
			libPanics++
			res = SatRes{Panic: panicInfo(r)}
		}
		guardCheck("Satisfies", allowed, a)
	}()
	ok, err := spdxexp.Satisfies(expr, a)
	res.Ok = ok
	if err != nil {
		res.IsErr = true
		res.Err = err.Error()
	}
	return
}

func Val(list []string) (res ValRes) {
	libCalls++
	a := guardCopy(list)
	defer func() {
		if r := recover(); r != nil {
			libPanics++
			res = ValRes{Panic: panicInfo(r)}
		}
		guardCheck("ValidateLicenses", list, a)
	}()
	ok, inv := spdxexp.ValidateLicenses(a)
	res.Valid = ok
	res.NilInv = inv == nil
	res.Invalid = append([]string{}, inv...)
	return
}

func Ext(expr string) (res ExtRes) {
	libCalls++
	defer func() {
		if r := recover(); r != nil {
			libPanics++
			res = ExtRes{Panic: panicInfo(r)}
		}
	}()
	l, err := spdxexp.ExtractLicenses(expr)
	res.IsNil = l == nil
	res.List = append([]string{}, l...)
	if err != nil {
		res.IsErr = true
		res.Err = err.Error()
	}
	return
}

// SatRaw / ValRaw pass the caller's slice itself (no guard copy): for checks whose subject is what
// the library does with the very slice object it was given.
func SatRaw(expr string, allowed []string) (res SatRes) {
	libCalls++
	defer func() {
		if r := recover(); r != nil {
			libPanics++
			res = SatRes{Panic: panicInfo(r)}
		}
	}()
	ok, err := spdxexp.Satisfies(expr, allowed)
	res.Ok = ok
	if err != nil {
		res.IsErr = true
		res.Err = err.Error()
	}
	return
}

func ValRaw(list []string) (res ValRes) {
	libCalls++
	defer func() {
		if r := recover(); r != nil {
			libPanics++
			res = ValRes{Panic: panicInfo(r)}
		}
	}()
	ok, inv := spdxexp.ValidateLicenses(list)
	res.Valid = ok
	res.Invalid = append([]string{}, inv...)
	return
}

// Valid1 is the validity verdict of a single string: 1 valid, 0 invalid, -1 panicked.
func Valid1(s string) int {
	r := Val([]string{s})
	if r.Panic != "" {
		return -1
	}
	if r.Valid {
		return 1
	}
	return 0
}
