package main

import (
	"encoding/json"
	"fmt"
	"os"
	"runtime/debug"
	"strconv"
	"syscall"
	"time"
)

// kinds maps a violation kind to the function that re-evaluates its case on the current tree.
// It returns a non-empty message when the oracle still fails.
var kinds = map[string]func(raw json.RawMessage) string{}

func usage() {
	fmt.Fprintln(os.Stderr, `usage: spdxmc check <ID> <quick|thorough> | replay <file> | list`)
	os.Exit(2)
}

func main() {
	if len(os.Args) < 2 {
		usage()
	}
	switch os.Args[1] {
	case "check":
		if len(os.Args) < 4 {
			usage()
		}
		tier := os.Args[3]
		if t := os.Getenv("VERIF_TIER"); t == "quick" || t == "thorough" {
			tier = t
		}
		os.Exit(runCheck(os.Args[2], tier))
	case "worker":
		workerMain(os.Args[2:])
	case "reverify":
		reverifyMain(os.Args[2], os.Args[3])
	case "replay":
		if len(os.Args) < 3 {
			usage()
		}
		os.Exit(replayMain(os.Args[2]))
	case "list":
		for id, p := range props {
			fmt.Println(id, p.Title)
		}
	default:
		if !extraCommand(os.Args[1], os.Args[2:]) {
			usage()
		}
	}
}

func workerMain(a []string) {
	if len(a) < 8 {
		fatalf("worker: bad args")
	}
	id, tier := a[0], a[1]
	shard, _ := strconv.Atoi(a[2])
	n, _ := strconv.Atoi(a[3])
	out, jpath, skipPath := a[4], a[5], a[6]
	budget, _ := strconv.Atoi(a[7])
	p := props[id]
	if p == nil {
		fatalf("unknown property %q", id)
	}
	// address-space cap so an exponential blow-up kills this worker, not the sandbox
	if id != "C13" { // C13 workers start -race children, which need a huge virtual address space
		lim := uint64(envInt("VERIF_WORKER_AS_GB", 8)) << 30
		syscall.Setrlimit(syscall.RLIMIT_AS, &syscall.Rlimit{Cur: lim, Max: lim})
	}
	debug.SetMaxStack(512 << 20)
	c := newCtx(id, tier, shard, n)
	c.Deadline = time.Now().Add(time.Duration(budget) * time.Second)
	j, err := openJournal(jpath)
	if err != nil {
		fatalf("journal: %v", err)
	}
	c.journal = j
	c.skip = map[string]bool{}
	if b, err := os.ReadFile(skipPath); err == nil {
		var l []string
		json.Unmarshal(b, &l)
		for _, s := range l {
			c.skip[s] = true
		}
	}
	c.known = map[string]bool{}
	for _, k := range loadKnown() {
		if k.Prop == id {
			c.known[k.Key] = true
		}
	}
	start := time.Now()
	p.Run(c)
	for _, a := range c.res.Classes {
		trimBest(a, c.keepPer)
	}
	c.res.WallS = time.Since(start).Seconds()
	c.Add("lib_calls", libCalls)
	c.Add("lib_panics_recovered", libPanics)
	c.Add("arg_mutations_seen", argMutations)
	b, err := json.Marshal(c.res)
	if err != nil {
		fatalf("marshal result: %v", err)
	}
	if err := os.WriteFile(out, b, 0o600); err != nil {
		fatalf("write result: %v", err)
	}
}

// reverifyMain re-executes each candidate 5 times (twice when the replays are slow: hangs); "ok" = failed every time (reproducible),
// "flaky" = failed sometimes, "gone" = never failed again.
func reverifyMain(in, out string) {
	b, err := os.ReadFile(in)
	if err != nil {
		fatalf("%v", err)
	}
	var cands []Violation
	json.Unmarshal(b, &cands)
	res := map[string]string{}
	for _, v := range cands {
		f := kinds[v.Kind]
		if f == nil {
			res[v.Key+"\x00"+v.Kind] = "noreplay"
			continue
		}
		// 5 re-executions; a case whose re-execution runs into the watchdog (a hang costs its full period)
		// is re-executed twice only, so that a hang is reported within minutes rather than an hour
		fails, runs := 0, 0
		start := time.Now()
		for i := 0; i < 5; i++ {
			runs++
			if safeReplay(f, v.Case) != "" {
				fails++
			}
			if i >= 1 && time.Since(start) > 160*time.Second {
				break
			}
		}
		switch fails {
		case runs:
			res[v.Key+"\x00"+v.Kind] = "ok"
		case 0:
			res[v.Key+"\x00"+v.Kind] = "gone"
		default:
			res[v.Key+"\x00"+v.Kind] = "flaky"
		}
	}
	ob, _ := json.Marshal(res)
	os.WriteFile(out, ob, 0o600)
}

func safeReplay(f func(json.RawMessage) string, raw json.RawMessage) (msg string) {
	defer func() {
		if r := recover(); r != nil {
			msg = fmt.Sprint("replay panicked: ", r)
		}
	}()
	return f(raw)
}

func replayMain(path string) int {
	b, err := os.ReadFile(path)
	if err != nil {
		fatalf("%v", err)
	}
	var v Violation
	if err := json.Unmarshal(b, &v); err != nil {
		fatalf("bad replay file: %v", err)
	}
	f := kinds[v.Kind]
	if f == nil {
		fmt.Printf("replay: kind %q has no in-process replayer; the file describes the case: %s\n", v.Kind, string(v.Case))
		return 2
	}
	m1 := safeReplay(f, v.Case)
	m2 := safeReplay(f, v.Case)
	if v.Kind == "c13.race" {
		// a free-running (sampling) pass: the report differs from run to run; it fails if either run fails
		if m1 == "" {
			m1 = m2
		}
		m2 = m1
	}
	if m1 != m2 {
		fmt.Printf("replay DIVERGED between two executions:\n 1: %s\n 2: %s\n", m1, m2)
		return 2
	}
	if m1 == "" {
		fmt.Printf("replay: property=%s case passes on the current tree (recorded: %s)\n", v.Prop, v.Msg)
		return 0
	}
	fmt.Printf("replay: property=%s STILL FAILS: %s\n", v.Prop, m1)
	fmt.Printf("VIOLATION property=%s replay=%s\n", v.Prop, path)
	return 1
}
