package main

// C13 monitor: the tables the library hands out are private copies. A caller that overwrites every
// element it was given (at every depth) must not change what later calls return or answer: the id
// tables are state the library reads on every call, and handing out its own backing arrays makes that
// state writable from outside (and racy). The elements are written back afterwards, so that a tree
// with the defect does not poison the rest of this worker's run.

import (
	"fmt"

	"github.com/github/go-spdx/v2/spdxexp/spdxlicenses"
)

func c13TablesPrivate() string {
	probes := [][2]string{{"Apache-1.0+", "Apache-2.0"}, {"GPL-2.0-only", "GPL-1.0+"}, {"MIT", "mit"}, {"MIT WITH Bison-exception-2.2", "MIT WITH bison-exception-2.2"}, {"AGPL-1.0", "AGPL-3.0-only"}}
	answers := func() string {
		s := ""
		for _, p := range probes {
			r := Sat(p[0], []string{p[1]})
			s += fmt.Sprintf("%v/%v;", r.Ok, r.IsErr)
		}
		return s
	}
	before := answers()
	msg := ""
	// flat tables
	for _, g := range []struct {
		name string
		get  func() []string
	}{{"GetLicenses", spdxlicenses.GetLicenses}, {"GetDeprecated", spdxlicenses.GetDeprecated}, {"GetExceptions", spdxlicenses.GetExceptions}} {
		l := g.get()
		pristine := append([]string{}, l...)
		for i := range l {
			l[i] = "ZZZ-overwritten"
		}
		fresh := g.get()
		for i := range pristine {
			if i >= len(fresh) || fresh[i] != pristine[i] {
				msg = fmt.Sprintf("after a caller overwrote every element of the slice returned by %s(), the next call returns %q at index %d instead of %q", g.name, at(fresh, i), i, pristine[i])
				break
			}
		}
		if a := answers(); msg == "" && a != before {
			msg = fmt.Sprintf("after a caller overwrote every element of the slice returned by %s(), Satisfies answers %s instead of %s for the probes %q", g.name, a, before, probes)
		}
		copy(l, pristine)
		if msg != "" {
			return msg
		}
	}
	// the range table, at every depth
	r := spdxlicenses.LicenseRanges()
	pristine := make([][][]string, len(r))
	for i := range r {
		pristine[i] = make([][]string, len(r[i]))
		for j := range r[i] {
			pristine[i][j] = append([]string{}, r[i][j]...)
			for k := range r[i][j] {
				r[i][j][k] = "ZZZ-overwritten"
			}
		}
	}
	fresh := spdxlicenses.LicenseRanges()
scan:
	for i := range pristine {
		for j := range pristine[i] {
			for k := range pristine[i][j] {
				if i >= len(fresh) || j >= len(fresh[i]) || k >= len(fresh[i][j]) || fresh[i][j][k] != pristine[i][j][k] {
					msg = fmt.Sprintf("after a caller overwrote every id inside the value returned by LicenseRanges(), the next call returns a different table at [%d][%d][%d] (was %q)", i, j, k, pristine[i][j][k])
					break scan
				}
			}
		}
	}
	if a := answers(); msg == "" && a != before {
		msg = fmt.Sprintf("after a caller overwrote every id inside the value returned by LicenseRanges(), Satisfies answers %s instead of %s for the probes %q", a, before, probes)
	}
	for i := range pristine {
		for j := range pristine[i] {
			copy(r[i][j], pristine[i][j])
		}
	}
	return msg
}

func at(l []string, i int) string {
	if i < len(l) {
		return l[i]
	}
	return "<missing>"
}
