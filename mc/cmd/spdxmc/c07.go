package main

// C07 — the allowed list is a set; the verdict is monotone in it. Explorer E1, relational.

import (
	"encoding/json"
	"fmt"
	"strings"
)

type c07Case struct {
	Kind string   `json:"kind"` // set | respell | monotone
	Expr string   `json:"expr"`
	A    []string `json:"list_a"`
	B    []string `json:"list_b"`
}

func c07Check(cs c07Case) (msg string, skip bool) {
	ra, rb := Sat(cs.Expr, cs.A), Sat(cs.Expr, cs.B)
	if ra.Panic != "" || rb.Panic != "" {
		return "", true
	}
	if ra.IsErr || rb.IsErr {
		return fmt.Sprintf("Satisfies(%q, %q) err=%q / Satisfies(%q, %q) err=%q on valid input", cs.Expr, cs.A, ra.Err, cs.Expr, cs.B, rb.Err), false
	}
	switch cs.Kind {
	case "monotone":
		if ra.Ok && !rb.Ok {
			return fmt.Sprintf("not monotone: Satisfies(%q, %q) = true but with the larger list %q it is false", cs.Expr, cs.A, cs.B), false
		}
	default:
		if ra.Ok != rb.Ok {
			return fmt.Sprintf("Satisfies(%q, %q) = %v but Satisfies(%q, %q) = %v (same set of licenses: %s)", cs.Expr, cs.A, ra.Ok, cs.Expr, cs.B, rb.Ok, cs.Kind), false
		}
	}
	return "", false
}

// terms and entries overlap through a version family; two references differ only in letter case
// (reference names are case-sensitive, so they are different licenses that a coarse key would merge)
var c07Terms = []string{"GPL-2.0", "GPL-3.0-only", "MIT", "Apache-2.0+", "LicenseRef-a", "LicenseRef-A", "GPL-2.0 WITH Bison-exception-2.2"}
var c07Entries = []string{"GPL-1.0-or-later", "GPL-2.0-only", "GPL-3.0", "MIT", "Apache-2.0", "LicenseRef-a", "Zlib", "GPL-2.0 WITH Bison-exception-2.2", "LicenseRef-A"}

// respellings of one allowed entry that denote the same license
func c07Respell(e string) []string {
	lic, exc := e, ""
	if i := strings.Index(e, " WITH "); i >= 0 {
		lic, exc = e[:i], e[i:]
	}
	var out []string
	add := func(s string) {
		if s != e {
			out = append(out, s)
		}
	}
	if !strings.HasPrefix(lic, "LicenseRef-") && !strings.HasPrefix(lic, "DocumentRef-") {
		plus := ""
		id := lic
		if strings.HasSuffix(id, "+") {
			plus, id = "+", id[:len(id)-1]
		}
		// letter case is free for the LISTED part only: a -only / -or-later suffix added to another id is
		// matched exactly (C09 leaves it outside its claim)
		listed := func(x string) bool {
			if _, ok := T().IsActive(x); ok {
				return true
			}
			_, ok := T().IsDepr(x)
			return ok
		}
		base, suf := id, ""
		if !listed(id) {
			for _, sx := range []string{"-only", "-or-later"} {
				if strings.HasSuffix(id, sx) && listed(strings.TrimSuffix(id, sx)) {
					base, suf = strings.TrimSuffix(id, sx), sx
				}
			}
		}
		if listed(base) {
			add(strings.ToLower(base) + suf + plus + exc)
			add(strings.ToUpper(base) + suf + plus + exc)
			add(swapCase(base) + suf + plus + exc)
		}
		if exc != "" {
			add(id + plus + " WITH " + strings.ToUpper(exc[6:]))
		}
		if plus == "" && Valid1(id+"-only") == 1 {
			add(id + "-only" + exc) // X-only denotes X (C08)
		}
	}
	add(" " + e + " ")
	add("(" + e + ")")
	add("( " + e + " )")
	add("((" + e + "))")
	return out
}

func init() {
	kinds["c07.case"] = func(raw json.RawMessage) string {
		var cs c07Case
		if err := json.Unmarshal(raw, &cs); err != nil {
			return "bad case"
		}
		msg, _ := c07Check(cs)
		return msg
	}
	register(&PropDef{
		ID:       "C07",
		Title:    "the allowed list behaves as a set and the verdict is monotone in it",
		Explorer: "E1 bounded-exhaustive expression x allowed-list enumeration, relational oracle between calls (set equality, re-spelling, inclusion)",
		Rule: "expressions: every tree <= 3 leaves over 7 terms (family-overlapping ids, two references differing only in case) (two renderings coincide semantically; full parenthesisation used); allowed lists: every list of length <= k with repetition over 9 entries (all permutations and duplications of every set of <= k entries); " +
			"references among licenses: 2 LicenseRefs and 2 DocumentRef:LicenseRefs with one listed id sorting before 'DocumentRef-', two between it and 'LicenseRef-' and one after, lists up to k+1; " +
			"two more spaces over the 5-7 ways of writing one license (x, x+, x-only, x-or-later, x WITH e, x+ WITH e, x WITH f) as terms and as entries; " +
			"for every family of the version table that has such ids: its first, second and last version with up to 4 listed ids outside every family that sort between its versions, lists up to 3; " +
			"every id of the version table and 8 ids / references outside it as a one-term expression satisfied by its own spelling, with any ONE table id (plain or '+') added before or after it; " +
			"oracles: lists with the same set of entries give the same verdict; replacing an entry by any re-spelling (case, spaces, parentheses, -only, exception case) keeps it; A subset B => (sat(A) => sat(B)) for all enumerated sets; " +
			"state = (expression, list), one transition each; non-trivial = lists with a repeated entry or more than one ordering (length >= 2) whose verdict is 'true' for at least one and whose expression has >= 2 distinct terms",
		Assumptions: []string{"differential: no reference model", "X-only as a re-spelling of X relies on C08's equivalence"},
		Run:         c07Run,
	})
}

// reference-focused space: the same LicenseRef under different DocumentRefs, case variants of one name
var c07RefTerms = []string{"LicenseRef-a", "LicenseRef-A", "DocumentRef-d:LicenseRef-a", "DocumentRef-e:LicenseRef-a", "MIT"}
var c07RefEntries = []string{"LicenseRef-a", "LicenseRef-A", "DocumentRef-d:LicenseRef-a", "DocumentRef-e:LicenseRef-a", "MIT", "DocumentRef-D:LicenseRef-a"}

// references among licenses: one id from each place a listed id can take relative to the two reference
// prefixes in a sorted list (before "DocumentRef-", between it and "LicenseRef-", after "LicenseRef-"),
// so that reference entries are never adjacent in whatever order the list is kept
var c07RefMixTerms = []string{"LicenseRef-a", "DocumentRef-d:LicenseRef-a", "DocumentRef-d:LicenseRef-b", "ISC"}
var c07RefMixEntries = []string{"LicenseRef-a", "DocumentRef-d:LicenseRef-a", "DocumentRef-d:LicenseRef-b", "LicenseRef-b", "0BSD", "GPL-2.0-only", "ISC", "Zlib"}

func c07Run(c *Ctx) {
	K := 3
	if c.Thorough() {
		K = 4
	}
	if !c07Space(c, "main", c07Terms, c07Entries, 3, K, c.Thorough()) {
		return
	}
	if !c07Space(c, "references", c07RefTerms, c07RefEntries, 2, K+1, false) {
		return
	}
	if !c07Space(c, "references-among-licenses", c07RefMixTerms, c07RefMixEntries, 2, K+1, false) {
		return
	}
	if !c07Space(c, "plus-pairs", c07PlusTerms, c07PlusEntries, 2, K+1, false) {
		return
	}
	if !c07Space(c, "same-license-twice", c07DupTerms, c07DupEntries, 2, K+1, false) {
		return
	}
	// every way of writing one license, as terms and as entries (a GNU id and a non-GNU table id)
	for _, x := range []string{"GPL-2.0", "Apache-1.1"} {
		v := idVariants(x)
		if !c07Space(c, "variants-of-"+x, v, v, 2, K, false) {
			return
		}
	}
	// every family of the version table together with the ids outside every family that sort between
	// its versions (Artistic-1.0-Perl between Artistic-1.0 and Artistic-2.0): a scan over the sorted list
	// that stops at the first entry 'past' the family must not stop there
	nfam := 0
	for _, f := range Families() {
		at := familyAtoms(f)
		ib := inBetweenIDs(f, 4)
		if len(at) < 2 || len(ib) == 0 {
			continue
		}
		nfam++
		if !c07Space(c, fmt.Sprintf("family-%d-with-in-between-ids", f.Index), at, append(append([]string{}, at...), ib...), 1, 3, false) {
			return
		}
	}
	c.Bound("families_with_in_between_ids", nfam)
	c07AddOne(c)
	c07Long(c)
}

// c07AddOne: a term that its own spelling satisfies stays satisfied when ANY one id of the version table
// (plain or with '+') is added to the list, before or after it. Terms: every table id and a few ids and
// references outside every family. (Entries of two families that collide under some private numbering of
// table positions, or a '+' entry at table position (0,0) next to an id that is in no family, show here.)
func c07AddOne(c *Ctx) {
	pos := tablePos()
	var table []string
	for _, fam := range T().Ranges {
		for _, st := range fam {
			for _, id := range st {
				if p := pos[id]; p.Count == 1 && !strings.HasSuffix(id, "+") && Valid1(id) == 1 {
					table = append(table, id)
				}
			}
		}
	}
	terms := append(append([]string{}, table...), "MIT", "ISC", "Zlib", "0BSD", "LicenseRef-a", "DocumentRef-d:LicenseRef-a", "MIT WITH Bison-exception-2.2", "MIT+")
	c.Bound("add_one_table_entry", map[string]any{"terms": len(terms), "added_entries": 2 * len(table), "placements": "before / after"})
	for ti, t := range terms {
		if !c.Mine(int64(ti)) {
			continue
		}
		if c.Expired() {
			return
		}
		if !c.Begin("add one entry to [" + t + "]") {
			continue
		}
		base := Sat(t, []string{t})
		if base.Panic != "" || base.IsErr || !base.Ok {
			c.Inc("skipped_term_not_self_satisfied")
			continue
		}
		for _, a := range table {
			for _, e := range []string{a, a + "+"} {
				if e == a+"+" && Valid1(e) != 1 {
					continue
				}
				for _, l := range [][]string{{t, e}, {e, t}} {
					cs := c07Case{Kind: "monotone", Expr: t, A: []string{t}, B: l}
					r := Sat(t, l)
					c.Inc("states")
					c.Inc("transitions")
					c.Inc("evaluations")
					if r.Panic != "" {
						c.Inc("skipped_panic")
						continue
					}
					c.Inc("traces")
					c.Inc("nontrivial")
					c.Outcome("add-one")
					if r.IsErr || !r.Ok {
						msg, _ := c07Check(cs)
						if msg == "" {
							msg = fmt.Sprintf("not monotone: Satisfies(%q, [%q]) = true but with the larger list %q it is false (not reproduced on re-check)", t, t, l)
						}
						c.Report(Violation{Kind: "c07.case", Class: "not-monotone:add-one-table-entry", Key: fmt.Sprintf("add-one|%s|%q", t, l), Msg: msg, Size: len(t) + len(e), Case: mustJSON(cs)})
					}
				}
			}
		}
	}
}

// the same id with and without '+' side by side (a de-duplication that forgets the '+' merges them)
var c07PlusTerms = []string{"Apache-2.0", "Apache-1.1", "MIT", "MIT+", "GPL-2.0-only+", "Apache-1.1+"}
var c07PlusEntries = []string{"Apache-1.0", "Apache-1.0+", "Apache-1.1", "MIT", "MIT+", "Zlib", "GPL-2.0-only", "GPL-2.0-only+", "Apache-2.0"}

// one license written twice in different ways (case, equivalent spelling) next to other entries
var c07DupTerms = []string{"MIT", "Apache-2.0", "GPL-3.0-only"}
var c07DupEntries = []string{"MIT", "mit", "Mit", "Apache-2.0", "apache-2.0", "GPL-2.0+", "GPL-2.0-or-later", "Zlib"}

// padding entries: unrelated to every term used below (no family, not mentioned)
var c07Padding = []string{"Beerware", "Unlicense", "WTFPL", "X11", "NTP", "Vim", "curl", "Ruby", "JSON", "Zed", "0BSD", "zlib-acknowledgement", "ISC", "Libpng"}

// c07Long: a short base list padded with unrelated and repeated entries up to 16 entries must give
// the verdict of the base list (no term matches a padding entry); positions of the base entries vary.
func c07Long(c *Ctx) {
	terms := []string{"MIT", "MIT+", "Apache-2.0", "GPL-3.0-only", "LicenseRef-a", "GPL-2.0-only WITH Bison-exception-2.2"}
	bases := [][]string{{"MIT"}, {"MIT+"}, {"Apache-1.0+"}, {"GPL-2.0+"}, {"LicenseRef-a"}, {"GPL-2.0-or-later WITH Bison-exception-2.2"}, {"Apache-2.0", "MIT"}, {"GPL-1.0+", "MIT+"}, {"Zlib"}}
	trees := TreesUpTo(2, len(terms))
	maxLen := 16
	if c.Thorough() {
		maxLen = 40
	}
	c.Bound("long_lists", map[string]any{"terms": terms, "base_lists": bases, "padding": c07Padding, "max_list_len": maxLen, "placements": "base entries first / last / spread, padding distinct or repeated"})
	var ti int64
	for n := 1; n <= 2; n++ {
		for _, t := range trees[n] {
			ti++
			if !c.Mine(ti) {
				continue
			}
			if c.Expired() {
				return
			}
			expr := t.RenderFull(terms, true)
			if !c.Begin("long lists for " + expr) {
				continue
			}
			for _, base := range bases {
				rb := Sat(expr, base)
				c.Inc("states")
				c.Inc("transitions")
				c.Inc("evaluations")
				if rb.Panic != "" || rb.IsErr {
					c.Inc("skipped_panic")
					continue
				}
				for total := len(base) + 1; total <= maxLen; total++ {
					k := total - len(base)
					for variant := 0; variant < 4; variant++ {
						var pad []string
						for i := 0; i < k; i++ {
							switch variant {
							case 3:
								pad = append(pad, c07Padding[0]) // one entry repeated
							default:
								pad = append(pad, c07Padding[i%len(c07Padding)])
							}
						}
						var l []string
						switch variant {
						case 0, 3:
							l = append(append(l, base...), pad...)
						case 1:
							l = append(append(l, pad...), base...)
						default:
							l = append(l, pad[:k/2]...)
							l = append(l, base...)
							l = append(l, pad[k/2:]...)
						}
						r := Sat(expr, l)
						c.Inc("states")
						c.Inc("transitions")
						c.Inc("evaluations")
						if r.Panic != "" {
							c.Inc("skipped_panic")
							continue
						}
						c.Inc("traces")
						if rb.Ok {
							c.Inc("nontrivial")
						}
						if r.IsErr || r.Ok != rb.Ok {
							kind := "set"
							if rb.Ok {
								kind = "monotone"
							}
							cs := c07Case{Kind: kind, Expr: expr, A: base, B: l}
							msg, _ := c07Check(cs)
							if msg == "" {
								msg = fmt.Sprintf("Satisfies(%q, %q) = %v but with %d unrelated entries added it is %v", expr, base, rb.Ok, k, r.Ok)
							}
							c.Report(Violation{Kind: "c07.case", Class: "long-list", Key: expr + " | " + strings.Join(base, ",") + fmt.Sprintf(" padded to %d (variant %d)", total, variant), Msg: msg, Size: len(expr) + total, Case: mustJSON(cs)})
						}
					}
				}
			}
		}
	}
}

func c07Space(c *Ctx, spaceName string, c07Terms, c07Entries []string, maxLeaves, K int, extra5 bool) bool {
	ne := len(c07Entries)
	type lst struct {
		idx  []int
		mask uint32
	}
	var lists []lst
	for k := 1; k <= K; k++ {
		var li int64
		forSeqs(ne, k, &li, func(_ int64, s []int) bool {
			l := lst{idx: append([]int{}, s...)}
			for _, a := range s {
				l.mask |= 1 << uint(a)
			}
			lists = append(lists, l)
			return true
		})
	}
	if extra5 {
		// length 5 over the first 5 entries
		var li int64
		forSeqs(5, 5, &li, func(_ int64, s []int) bool {
			l := lst{idx: append([]int{}, s...)}
			for _, a := range s {
				l.mask |= 1 << uint(a)
			}
			lists = append(lists, l)
			return true
		})
	}
	respell := make([][]string, ne)
	for i, e := range c07Entries {
		respell[i] = c07Respell(e)
	}
	c.Bound("space_"+spaceName, map[string]any{"terms": c07Terms, "entries": c07Entries, "max_list_len": K, "lists": len(lists), "respellings_per_entry": len(respell[0])})
	mk := func(idx []int) []string {
		out := make([]string, len(idx))
		for i, a := range idx {
			out[i] = c07Entries[a]
		}
		return out
	}
	trees := TreesUpTo(maxLeaves, len(c07Terms))
	var ti int64
	for n := 1; n <= maxLeaves; n++ {
		for _, t := range trees[n] {
			ti++
			if !c.Mine(ti) {
				continue
			}
			if c.Expired() {
				return false
			}
			expr := t.RenderFull(c07Terms, true)
			if !c.Begin(expr) {
				continue
			}
			// verdict of every list; first list seen per set is the representative
			type rep struct {
				ok   bool
				list []int
				set  bool
			}
			reps := make([]rep, 1<<uint(ne))
			bad := false
			anyTrue := false
			for _, l := range lists {
				r := Sat(expr, mk(l.idx))
				c.Inc("states")
				c.Inc("transitions")
				c.Inc("evaluations")
				if r.Panic != "" {
					c.Inc("skipped_panic")
					bad = true
					continue
				}
				c.Inc("traces")
				if r.IsErr {
					c.Report(Violation{Kind: "c07.case", Class: "error-on-valid", Key: expr + " | " + strings.Join(mk(l.idx), ","), Msg: fmt.Sprintf("Satisfies(%q, %q) error %q on valid input", expr, mk(l.idx), r.Err), Size: len(expr),
						Case: mustJSON(c07Case{Kind: "set", Expr: expr, A: mk(l.idx), B: mk(l.idx)})})
					bad = true
					continue
				}
				if r.Ok {
					anyTrue = true
				}
				rp := &reps[l.mask]
				if !rp.set {
					*rp = rep{ok: r.Ok, list: l.idx, set: true}
				} else if rp.ok != r.Ok {
					cs := c07Case{Kind: "set", Expr: expr, A: mk(rp.list), B: mk(l.idx)}
					msg, _ := c07Check(cs)
					if msg == "" {
						msg = "verdict differs between two lists with the same set of entries (not reproduced on direct re-check)"
					}
					c.Report(Violation{Kind: "c07.case", Class: "order-or-duplicates", Key: expr + " | " + strings.Join(cs.A, ",") + " vs " + strings.Join(cs.B, ","), Msg: msg, Size: len(expr) + 10*len(l.idx), Case: mustJSON(cs)})
				}
				if len(l.idx) >= 2 && popcount(t.AtomSet()) >= 2 {
					c.Inc("nontrivial_candidates")
				}
			}
			if anyTrue && popcount(t.AtomSet()) >= 2 {
				c.Add("nontrivial", int64(len(lists)))
			}
			if bad {
				continue
			}
			// monotonicity over all enumerated sets
			for a := uint32(1); a < uint32(len(reps)); a++ {
				if !reps[a].set || !reps[a].ok {
					continue
				}
				for b := a + 1; b < uint32(len(reps)); b++ {
					if b&a != a || !reps[b].set {
						continue
					}
					c.Inc("monotone_pairs")
					if !reps[b].ok {
						cs := c07Case{Kind: "monotone", Expr: expr, A: mk(reps[a].list), B: mk(reps[b].list)}
						msg, _ := c07Check(cs)
						if msg == "" {
							msg = "not monotone (not reproduced on direct re-check)"
						}
						c.Report(Violation{Kind: "c07.case", Class: "not-monotone", Key: expr + " | " + strings.Join(cs.A, ",") + " < " + strings.Join(cs.B, ","), Msg: msg, Size: len(expr), Case: mustJSON(cs)})
					}
				}
			}
			// re-spellings: every list of length <= 2, every position, every re-spelling
			// (expressions of up to 2 leaves: the spelling of an entry does not interact with tree shape)
			for _, l := range lists {
				if len(l.idx) > 2 || t.Leaves() > 2 {
					continue
				}
				base := mk(l.idx)
				for p, ei := range l.idx {
					for _, rs := range respell[ei] {
						alt := append([]string{}, base...)
						alt[p] = rs
						cs := c07Case{Kind: "respell", Expr: expr, A: base, B: alt}
						r := Sat(expr, alt)
						c.Inc("states")
						c.Inc("transitions")
						c.Inc("evaluations")
						if r.Panic != "" {
							continue
						}
						c.Inc("traces")
						if r.IsErr || r.Ok != reps[l.mask].ok {
							msg, _ := c07Check(cs)
							if msg == "" {
								msg = "re-spelling changed the verdict (not reproduced on direct re-check)"
							}
							c.Report(Violation{Kind: "c07.case", Class: "respelling", Key: expr + " | " + strings.Join(base, ",") + " ~ " + strings.Join(alt, ","), Msg: msg, Size: len(expr) + len(rs), Case: mustJSON(cs)})
						}
					}
				}
			}
			c.Sample(func() any {
				return map[string]any{"expr": expr, "lists": len(lists), "example_list": mk(lists[len(lists)/2].idx)}
			})
		}
	}
	return true
}
