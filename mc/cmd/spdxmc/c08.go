package main

// C08 — equivalent spellings (X+ ~ X-or-later, X ~ X-only) are interchangeable everywhere.
// Explorer E1, relational: every listed id x both pairs x every context; oracle = identical
// validity and Satisfies result before/after substitution.

import (
	"encoding/json"
	"fmt"
	"strings"
)

type c08Case struct {
	S1      string   `json:"spelling1"`
	S2      string   `json:"spelling2"`
	Role    string   `json:"role"` // expr | allowed
	Expr    string   `json:"expr_template"`
	Allowed []string `json:"allowed_template"`
}

const hole = "\x01"

func fill(s, v string) string { return strings.ReplaceAll(s, hole, v) }
func fillAll(l []string, v string) []string {
	out := make([]string, len(l))
	for i, s := range l {
		out[i] = fill(s, v)
	}
	return out
}

type c08Obs struct {
	ValidExpr int
	ValidAll  int
	Ok, IsErr bool
	Panic     bool
}

func c08Observe(expr string, allowed []string) c08Obs {
	var o c08Obs
	o.ValidExpr = Valid1(expr)
	v := Val(allowed)
	if v.Panic != "" {
		o.ValidAll = -1
	} else if v.Valid {
		o.ValidAll = 1
	}
	r := Sat(expr, allowed)
	o.Ok, o.IsErr, o.Panic = r.Ok, r.IsErr, r.Panic != "" || o.ValidExpr < 0 || o.ValidAll < 0
	return o
}

func c08Check(cs c08Case) (msg string, skip bool) {
	o1 := c08Observe(fill(cs.Expr, cs.S1), fillAll(cs.Allowed, cs.S1))
	o2 := c08Observe(fill(cs.Expr, cs.S2), fillAll(cs.Allowed, cs.S2))
	if o1.Panic || o2.Panic {
		return "", true
	}
	if o1 != o2 {
		return fmt.Sprintf("spellings %q and %q are not interchangeable in Satisfies(%q, %q): with the first valid(expr)=%v valid(list)=%v result=%v err=%v; with the second valid(expr)=%v valid(list)=%v result=%v err=%v",
			cs.S1, cs.S2, strings.ReplaceAll(cs.Expr, hole, "<X>"), strings.Join(cs.Allowed, ","), o1.ValidExpr == 1, o1.ValidAll == 1, o1.Ok, o1.IsErr, o2.ValidExpr == 1, o2.ValidAll == 1, o2.Ok, o2.IsErr), false
	}
	return "", false
}

func init() {
	kinds["c08.subst"] = func(raw json.RawMessage) string {
		var cs c08Case
		if err := json.Unmarshal(raw, &cs); err != nil {
			return "bad case"
		}
		cs.Expr = strings.ReplaceAll(cs.Expr, "<X>", hole)
		for i := range cs.Allowed {
			cs.Allowed[i] = strings.ReplaceAll(cs.Allowed[i], "<X>", hole)
		}
		msg, _ := c08Check(cs)
		return msg
	}
	kinds["c08.valid"] = func(raw json.RawMessage) string {
		var cs c08Case
		json.Unmarshal(raw, &cs)
		if Valid1(cs.S1) == 0 {
			return fmt.Sprintf("%q must be valid for an active id", cs.S1)
		}
		return ""
	}
	register(&PropDef{
		ID:       "C08",
		Title:    "equivalent spellings of a license are interchangeable everywhere",
		Explorer: "E1 exhaustive id x spelling-pair x context enumeration, differential oracle (same code, two spellings)",
		Rule: "for every listed id X and both pairs (X+, X-or-later), (X, X-only) whose members are both valid: substituted as the expression term and as the allowed entry against every spelling of every listed id sharing X's name stem plus MIT, Zlib, LicenseRef-a, with and without WITH Bison-exception-2.2 on either side, " +
			"and at every leaf of every tree <= 2 (thorough 3) leaves over {MIT, LicenseRef-a, GPL-2.0-or-later, LicenseRef-x-or-later} in four renderings; state = one context with both spellings, 6 transitions (2x ValidateLicenses expr, list; Satisfies); non-trivial = contexts in which the Satisfies verdict is 'true' or whose partner belongs to X's table family",
		Assumptions: []string{"'both spellings valid' is taken from the implementation's own ValidateLicenses verdict; for active X invalidity of any of the four spellings is itself a violation", "deprecated ids whose suffixed form is invalid are skipped (status left open by the properties)"},
		Run:         c08Run,
	})
}

func stem(id string) string {
	s := stripSuffix(strings.TrimSuffix(id, "+"))
	// cut at the first '-' that is followed by a digit (start of the version), else the last '-'
	for i := 0; i+1 < len(s); i++ {
		if s[i] == '-' && s[i+1] >= '0' && s[i+1] <= '9' {
			return s[:i+1]
		}
	}
	if k := strings.LastIndex(s, "-"); k >= 0 {
		return s[:k+1]
	}
	return s
}

func c08Run(c *Ctx) {
	t := T()
	all := t.AllLicenseIDs()
	byStem := map[string][]string{}
	for _, id := range all {
		byStem[stem(id)] = append(byStem[stem(id)], id)
	}
	pos := tablePos()
	exc := " WITH Bison-exception-2.2"
	maxLeaves := 2
	if c.Thorough() {
		maxLeaves = 3
	}
	// the other leaves include a listed -or-later id and a reference whose name ends in -or-later:
	// text the scanner must leave alone while it rewrites the spelling under test
	atoms := []string{hole, "MIT", "LicenseRef-a", "GPL-2.0-or-later", "LicenseRef-x-or-later"}
	atomsP := []string{"(" + hole + ")", "(MIT)", "(LicenseRef-a)", "(GPL-2.0-or-later)", "(LicenseRef-x-or-later)"}
	trees := TreesUpTo(maxLeaves, len(atoms))
	var treeTemplates []string
	seenT := map[string]bool{}
	for n := 1; n <= maxLeaves; n++ {
		for _, tr := range trees[n] {
			if tr.AtomSet()&1 == 0 {
				continue
			}
			tight := strings.ReplaceAll(strings.ReplaceAll(tr.RenderFull(atomsP, true), " AND ", "AND"), " OR ", "OR")
			for _, s := range []string{tr.RenderFull(atoms, true), tr.RenderMin(atoms), "(" + tr.RenderFull(atoms, true) + ")", tight} {
				if !seenT[s] {
					seenT[s] = true
					treeTemplates = append(treeTemplates, s)
				}
			}
		}
	}
	// an unlisted -or-later form (which the scanner rewrites) BEFORE the spelling under test and a '+' term
	// at various distances AFTER it: look-ahead that mixes the rewritten buffer with the caller's offsets
	for _, s := range []string{
		"Apache-2.0-or-later OR " + hole + " AND MIT+", "Apache-2.0-or-later OR " + hole + " OR Zlib+", "Apache-2.0-or-later AND " + hole + " OR ISC+",
		"MIT-or-later AND Apache-2.0-or-later AND " + hole + " AND (Apache-1.1+)", "Apache-2.0-or-later+ OR " + hole + " AND 0BSD+", "(Zlib-or-later) AND " + hole + " AND X11+",
	} {
		treeTemplates = append(treeTemplates, s)
	}
	c.Bound("contexts", map[string]any{"tree_templates": len(treeTemplates), "max_leaves": maxLeaves, "exception": strings.TrimSpace(exc), "ids": len(all)})

	run := func(cs c08Case, nontrivialHint bool) {
		if !c.Begin(cs.S1 + "~" + cs.S2 + " in " + cs.Expr + " / " + strings.Join(cs.Allowed, ",")) {
			return
		}
		msg, skip := c08Check(cs)
		c.Inc("states")
		c.Add("transitions", 6)
		c.Inc("evaluations")
		if skip {
			c.Inc("skipped_panic")
			return
		}
		c.Add("traces", 6)
		if nontrivialHint {
			c.Inc("nontrivial")
		}
		if msg != "" {
			show := cs
			show.Expr = strings.ReplaceAll(cs.Expr, hole, "<X>")
			show.Allowed = nil
			for _, a := range cs.Allowed {
				show.Allowed = append(show.Allowed, strings.ReplaceAll(a, hole, "<X>"))
			}
			c.Report(Violation{Kind: "c08.subst", Class: "not-interchangeable:" + cs.Role, Key: cs.S1 + "~" + cs.S2 + " @ " + show.Expr + " / " + strings.Join(show.Allowed, ","),
				Msg: msg, Size: len(cs.S1) + len(cs.Expr) + 10*len(cs.Allowed), Case: mustJSON(show)})
		}
	}

	for k, x := range all {
		if !c.Mine(int64(k)) {
			continue
		}
		if c.Expired() {
			return
		}
		_, isActive := t.IsActive(x)
		var pairs [][2]string
		cand := [][2]string{{x, x + "-only"}}
		if !strings.HasSuffix(x, "+") {
			cand = append(cand, [2]string{x + "+", x + "-or-later"})
			// the same pairs with the listed id in another letter case (the suffix stays as documented)
			if lo := strings.ToLower(x); lo != x {
				cand = append(cand, [2]string{lo, lo + "-only"}, [2]string{lo + "+", lo + "-or-later"})
			}
			if _, inTable := pos[NormTerm(x).ID]; inTable {
				if up := strings.ToUpper(x); up != x {
					cand = append(cand, [2]string{up, up + "-only"}, [2]string{up + "+", up + "-or-later"})
				}
			}
		} else {
			cand = [][2]string{{x, strings.TrimSuffix(x, "+") + "-or-later"}}
		}
		for _, p := range cand {
			v1, v2 := Valid1(p[0]), Valid1(p[1])
			if isActive {
				for i, v := range []int{v1, v2} {
					if v == 0 {
						c.Report(Violation{Kind: "c08.valid", Class: "active-spelling-invalid", Key: "invalid:" + p[i], Msg: fmt.Sprintf("%q is invalid although %q is on the active list", p[i], x), Size: len(p[i]),
							Case: mustJSON(c08Case{S1: p[i]})})
					}
				}
			}
			if v1 == 1 && v2 == 1 {
				pairs = append(pairs, p)
			} else {
				c.Inc("pairs_skipped_not_both_valid")
			}
		}
		c.Add("pairs", int64(len(pairs)))
		var partners []string
		for _, y := range byStem[stem(x)] {
			partners = append(partners, spellings(y)...)
		}
		partners = append(partners, "MIT", "Zlib", "LicenseRef-a")
		famX, inTable := pos[NormTerm(x).ID]
		for _, p := range pairs {
			c.Sample(func() any {
				return map[string]any{"pair": p, "partners": len(partners), "tree_templates": len(treeTemplates)}
			})
			for _, q := range partners {
				nq := NormTerm(q)
				pq, okq := pos[nq.ID]
				sameFam := inTable && okq && pq.Fam == famX.Fam
				for _, ex := range [][2]string{{"", ""}, {exc, exc}, {exc, ""}, {"", exc}} {
					if nq.Ref && ex[1] != "" {
						continue
					}
					run(c08Case{S1: p[0], S2: p[1], Role: "expr", Expr: hole + ex[0], Allowed: []string{q + ex[1]}}, sameFam)
					run(c08Case{S1: p[0], S2: p[1], Role: "allowed", Expr: q + ex[1], Allowed: []string{hole + ex[0]}}, sameFam)
				}
			}
			// a wide list: the other leaves of the templates and the LAST version of x's family, so that reading
			// x as 'x or later' (or as a different version) changes the verdict
			wide := []string{"MIT", "LicenseRef-a", "Zlib", "ISC", "0BSD", "X11", "Apache-1.1"}
			if inTable {
				if fam := T().Ranges[famX.Fam]; len(fam) > 0 && len(fam[len(fam)-1]) > 0 && Valid1(fam[len(fam)-1][0]) == 1 {
					wide = append(wide, fam[len(fam)-1][0])
				}
			}
			for _, tt := range treeTemplates {
				run(c08Case{S1: p[0], S2: p[1], Role: "expr", Expr: tt, Allowed: wide}, true)
				run(c08Case{S1: p[0], S2: p[1], Role: "expr", Expr: tt, Allowed: []string{x}}, true)
				run(c08Case{S1: p[0], S2: p[1], Role: "expr", Expr: tt, Allowed: []string{"MIT", "LicenseRef-a"}}, false)
				run(c08Case{S1: p[0], S2: p[1], Role: "allowed", Expr: fill(tt, x), Allowed: []string{"MIT", hole, "LicenseRef-a"}}, true)
			}
		}
	}
}
