#!/bin/sh
# run_check.sh <ID> <quick|thorough>: rebuild the explorer against /repo's current working tree, run one check.
# run_check.sh replay <file>        : rebuild, then re-execute the case recorded in a replay file.
# (VERIF_REPO=<dir> points the whole machinery at another checkout — used only for experiments with
#  property-breaking changes in scratch worktrees; the registered commands always use /repo.)
set -u
ROOT=$(cd "$(dirname "$0")" && pwd)
export VERIF_ROOT="$ROOT"
REPO="${VERIF_REPO:-/repo}"
export VERIF_REPO="$REPO"
BIN="$ROOT/bin"
mkdir -p "$ROOT/bin" "$ROOT/evidence" "$ROOT/replays"
if [ "$REPO" = /repo ]; then
  export GOFLAGS=-mod=mod GOPROXY=off GOSUMDB=off GOTOOLCHAIN=local
  cp /repo/go.sum "$ROOT/mc/go.sum" 2>/dev/null
else
  BIN=$(mktemp -d)
  trap 'rm -rf "$BIN"' EXIT
  sed "s#=> /repo#=> $REPO#" "$ROOT/mc/go.mod" > "$BIN/go.mod"
  cp "$REPO/go.sum" "$BIN/go.sum"
  export GOFLAGS="-mod=mod -modfile=$BIN/go.mod" GOPROXY=off GOSUMDB=off GOTOOLCHAIN=local
fi
if ! (cd "$ROOT/mc" && go build -o "$BIN/spdxmc" ./cmd/spdxmc) >"$BIN/build.log" 2>&1; then
  echo "run_check: the explorer does not build against $REPO (infrastructure failure, not a verdict):" >&2
  cat "$BIN/build.log" >&2
  exit 2
fi
if [ "$1" = replay ]; then
  "$BIN/spdxmc" replay "$2"
else
  "$BIN/spdxmc" check "$1" "${2:-quick}"
fi
