#!/bin/sh
# run_check.sh <ID> <quick|thorough>: rebuild the explorer against /repo's current working tree, run one check.
set -u
export GOFLAGS=-mod=mod GOPROXY=off GOSUMDB=off GOTOOLCHAIN=local
ROOT=$(cd "$(dirname "$0")" && pwd)
export VERIF_ROOT="$ROOT"
mkdir -p "$ROOT/bin" "$ROOT/evidence" "$ROOT/replays"
cp /repo/go.sum "$ROOT/mc/go.sum" 2>/dev/null
if ! (cd "$ROOT/mc" && go build -o "$ROOT/bin/spdxmc" ./cmd/spdxmc) >"$ROOT/bin/build.log" 2>&1; then
  echo "run_check: the explorer does not build against /repo (infrastructure failure, not a verdict):" >&2
  cat "$ROOT/bin/build.log" >&2
  exit 2
fi
exec "$ROOT/bin/spdxmc" check "$1" "${2:-quick}"
