#!/bin/sh
# regress.sh <out.md> : final regression of detection - every kept change (seeded/*/patch.diff, mutants/*.diff)
# is applied to a private scratch worktree of /repo and run against ONE quick check: the first check its
# meta.json records as reporting it (seeded), or the check of its own property (my own changes, from the
# name). Expected: exit 1 everywhere, except control-comment-only (exit 0). /repo is never touched.
OUT="$1"
ROOT=$(cd "$(dirname "$0")/.." && pwd)
WT=$(mktemp -d /tmp/regress-wt-XXXXXX); rmdir "$WT"
git -C /repo worktree add -q --detach "$WT" HEAD || exit 2
trap 'git -C /repo worktree remove --force "$WT"' EXIT INT TERM
echo "| change | check | exit | expected |" > "$OUT"; echo "|---|---|---|---|" >> "$OUT"
bad=0
one() { # name patch check expected
  (cd "$WT" && git checkout -q -- . && git clean -fdq && git apply "$2") || { echo "| $1 | $3 | does not apply | $4 |" >> "$OUT"; bad=$((bad+1)); return; }
  (cd "$ROOT" && VERIF_OUT_DIR=/tmp/regress-out VERIF_REPO="$WT" ./run_check.sh "$3" quick >/tmp/regress-last.log 2>&1); code=$?
  [ "$code" = "$4" ] || { bad=$((bad+1)); cp /tmp/regress-last.log "/tmp/regress-$1-$3.log"; }
  echo "| $1 | $3 | $code | $4 |" >> "$OUT"; echo "$1 $3 exit=$code expected=$4"
}
for d in "$ROOT"/seeded/C*/; do
  n=$(basename "$d")
  chk=$(python3 -c "import json,sys; print(json.load(open(sys.argv[1]))['detected_by_quick_checks'][0])" "$d/meta.json")
  one "$n" "$d/patch.diff" "$chk" 1
done
for p in "$ROOT"/mutants/*.diff; do
  n=$(basename "$p" .diff)
  case "$n" in
    control-comment-only) one "$n" "$p" C01 0; continue ;;
    revert-D1*) chk=C03 ;; revert-D9+D*) chk=C01 ;; revert-D5*) chk=C05 ;; revert-D6*) chk=C15 ;; revert-D7*) chk=C11 ;; revert-D9*) chk=C14 ;;
    c[0-9][0-9]-*) chk=$(echo "$n" | cut -c1-3 | tr c C) ;;
    *) chk=C13 ;;
  esac
  one "$n" "$p" "$chk" 1
done
echo "" >> "$OUT"; echo "unexpected results: $bad" >> "$OUT"; echo "unexpected results: $bad"
rm -rf /tmp/regress-out
