#!/bin/sh
# matrix.sh <out.md> <patch.diff>... : run every quick check against every change, each applied to a
# private scratch worktree of /repo (VERIF_REPO), never to /repo itself; one table row per change.
OUT="$1"; shift
IDS="${IDS:-C01 C02 C03 C04 C05 C06 C07 C08 C09 C10 C11 C12 C13 C14 C15}"
ROOT=$(cd "$(dirname "$0")/.." && pwd)
WT=$(mktemp -d /tmp/matrix-wt-XXXXXX); rmdir "$WT"
git -C /repo worktree add -q --detach "$WT" HEAD || exit 2
trap 'git -C /repo worktree remove --force "$WT"' EXIT INT TERM
[ -f "$OUT" ] || { echo "| change | $(echo $IDS | sed 's/ / | /g') |"; echo "|---|$(for i in $IDS; do printf -- '---|'; done)"; } > "$OUT"
for P in "$@"; do
  name=$(basename "$P" .diff); [ "$name" = patch ] && name=$(basename "$(dirname "$P")")
  (cd "$WT" && git checkout -q -- . && git clean -fdq && git apply "$P") || { echo "| $name | does not apply |" >> "$OUT"; continue; }
  row="| $name |"
  for id in $IDS; do
    (cd "$ROOT" && VERIF_OUT_DIR="${MATRIX_OUT:-/tmp/matrix-out}" VERIF_REPO="$WT" ./run_check.sh $id quick >"/tmp/matrix-$name-$id.log" 2>&1); code=$?
    case $code in 0) cell=" . "; rm -f "/tmp/matrix-$name-$id.log" ;; 1) cell=" **X** " ;; *) cell=" err$code " ;; esac
    row="$row$cell|"
  done
  echo "$row" >> "$OUT"
  echo "$row"
done
