#!/usr/bin/env python3
"""Writes /verif/seeded/<id>/meta.json from the descriptions below plus the detection matrices."""
import json, os, re, sys
ROOT = os.path.dirname(os.path.dirname(os.path.abspath(__file__)))
DESC = {
 "C01-A": ("C01", "isSatisfiedBy evaluates an AND chain by collecting the right spine into one isCompatible call; a parenthesised AND group as the LEFT operand of an AND is treated as one unmatched license", "an expression shaped (A AND B) AND C (also nested / inside an OR alternative) whose terms are all allowed: Satisfies answers false"),
 "C01-B": ("C01", "per-call memo of term verdicts keyed by a struct that omits the DocumentRef", "one expression containing LicenseRef-x and DocumentRef-d:LicenseRef-x with exactly one of them allowed"),
 "C02-A": ("C02", "process-wide sync.Map cache of parsed allowed-list entries keyed by the lower-cased entry; reference names are case-sensitive", "two Satisfies calls in one process whose allowed entries differ only in the letter case of a LicenseRef/DocumentRef name"),
 "C02-B": ("C02", "early 'not in any range' pre-check in licensesAreCompatible that looks ids up without stripping -or-later; the table lists GPL/LGPL/GFDL -or-later ids literally but no AGPL ones", "an AGPL term with -or-later or + against a different AGPL version, e.g. Satisfies(AGPL-1.0-or-later, [AGPL-3.0-only])"),
 "C03-A": ("C03", "sortAndDedup switched to slices.CompactFunc, which zeroes the dropped tail on go >= 1.22; Satisfies ignores the returned slice and walks into nil nodes", "an allowed list with a duplicate (also after normalisation: mit/MIT) and an expression license that no remaining entry satisfies: nil dereference"),
 "C03-B": ("C03", "readID walks the input with a [256]bool table indexed by the rune from range, not by the byte", "any code point above U+00FF or an invalid UTF-8 byte (decodes to U+FFFD) in the input: index out of range in all three functions"),
 "C04-A": ("C04", "ValidateLicenses caches its verdict per string in a package-level sync.Map keyed by the lower-cased string", "validate one spelling, then a string that differs only in letter case and has different validity (lower-case operator, licenseref-): the second call returns the first verdict and disagrees with ExtractLicenses/Satisfies"),
 "C04-B": ("C04", "fast path in stringsToNodes builds a license node straight from licenseLookup, which also searches the exception list, without checking the token role", "a bare exception id as a stand-alone allowed entry: Satisfies returns no error while the other entry points reject the string"),
 "C05-A": ("C05", "parseLicense consumes a '+' only in the else-branch of 'id ends in -or-later'", "a '+' directly after one of the 17 listed -or-later ids (GPL-2.0-or-later+, GPL-2.0++): valid expressions rejected, including ExtractLicenses' own output"),
 "C05-B": ("C05", "activeLicense uses a first-character span index; build stores the last position inclusively, lookup slices exclusively", "the alphabetically last active id of each initial letter (28 of 638 ids: 0BSD, JSON, WTFPL, ZPL-2.1, ...) is unknown"),
 "C06-A": ("C06", "removeDuplicateStrings de-duplicates on strings.ToLower(item)", "an expression with two LicenseRef/DocumentRef terms that differ only in letter case: one distinct term is missing and Satisfies(e, Extract(e)) is false when they are ANDed"),
 "C06-B": ("C06", "process-wide memo in normalizeLicense of ids 'resolved by plain lookup', also storing the deprecated fallback", "a deprecated id with an active -or-later sibling scanned bare first and then with '+' (earlier call or earlier in the same expression): X+ instead of X-or-later+, two terms for one license"),
 "C07-A": ("C07", "per-call memo in stringsToNodes keyed by ToLower(TrimSpace(entry))", "an allowed list with two LicenseRef entries that differ only in case: verdict depends on list order; adding an entry turns satisfied into not satisfied"),
 "C07-B": ("C07", "fast path in stringsToNodes sets hasPlus from HasSuffix(raw entry, \"-or-later\"), case-sensitively, while the id lookup is case-insensitive", "an allowed entry like GPL-2.0-OR-LATER and an expression of a strictly later version"),
 "C08-A": ("C08", "the -or-later rewrite uses strings.Replace(scanned, \"-or-later\", \"+\", 1) on the whole scanned prefix", "a term that keeps its -or-later (GPL-2.0-or-later, LicenseRef-...-or-later) BEFORE a non-GNU X-or-later term: the expression becomes invalid while the X+ spelling stays valid"),
 "C08-B": ("C08", "fast path for plain active ids in stringsToNodes never sets hasPlus (parseLicense derives it from the -or-later suffix)", "an allowed entry that is a bare GNU X-or-later id and an expression term of another version of that family: differs from the X+ spelling"),
 "C09-A": ("C09", "per-list index with an exact set and a lower-cased map that skips ids already all lower case; lookup never tries the exact set with the lower-cased id", "one of the ~55 ids that SPDX lists in all lower case (curl, bzip2-1.0.6, ...) written with an upper-case letter becomes unknown"),
 "C09-B": ("C09", "the id+'+' branch of normalizeLicense checks the deprecated list first and returns a token built from the caller's text", "gpl-2.0+ style input (6 ids, not in list casing, '+' glued on): ExtractLicenses reports the caller's casing, range comparisons fail"),
 "C10-A": ("C10", "AND-chain fast path flattens a parenthesised AND group on the left with leaves(), turning a nested OR into required licenses", "(A AND (B OR C)) AND D with an allowed list satisfying only one branch of the OR: regrouping changes the verdict, compositionality fails"),
 "C10-B": ("C10", "per-call verdict memo keyed by the bare license id (drops '+' and WITH)", "one expression containing the same id twice with different modifiers and a list that accepts only one spelling: operand order changes the result"),
 "C11-A": ("C11", "getLicenseRange index encodes the location as group*100+version*10+index", "a family with >= 10 version groups (OLDAP): OLDAP-2.3..2.8 land in the next family (OSL)"),
 "C11-B": ("C11", "hand edit of the range table adds ranges for ten families; one '}, {' between NLOD and OGL-UK is missing so both sit in one group", "a pair of one NLOD id and one OGL-UK id matches through '+' (12 ordered pairs out of ~21000)"),
 "C12-A": ("C12", "generator retags the deprecated flag of exceptions (wrong JSON key) and get_exceptions.go is regenerated", "exactly one id: the deprecated Nokia-Qt-exception-1.1 is now accepted after WITH; regenerate-and-diff still passes"),
 "C12-B": ("C12", "binary search over lower-cased sorted tables with hi = len-1 but half-open loop", "the last slot of each table: ZPL-2.1, wxWindows, x11vnc-openssl-exception are rejected"),
 "C13-A": ("C13", "removeDuplicateStrings compacts in place and Satisfies passes the caller's allowedList through it", "an allowed list with an exact repeat followed by a new string is modified; goroutines sharing it race"),
 "C13-B": ("C13", "parse() memoises parsed trees in a sync.Map keyed by the lower-cased source", "two inputs that differ only in the case of an operator or reference name, in a particular order (history dependence, no data race)"),
 "C14-A": ("C14", "Satisfies re-expands 'small' expressions; the size estimate (product of alternatives, int) overflows", "an AND of >= 63 two-way OR groups (about 1.1-1.6 KB) or 40 three-way groups: the overflowed count passes the check and expand() builds 2^63 parts"),
 "C14-B": ("C14", "isSatisfiedBy evaluates the shallower operand first using depth(), which recurses twice into the left child when it is the deeper one", "a left-nested parenthesised chain about 25+ levels deep (a few hundred bytes): time doubles per level, nothing is allocated"),
 "C15-A": ("C15", "the -or-later rewrite adds a constant 8 to the removed-byte count", "an unknown/missing id preceded by an unlisted X-or-later directly followed by '+' (9 bytes dropped): later offsets are 1 too small"),
 "C01-R2": ("C01", "sortAndDedup compares adjacent allowed nodes with licensesExactlyEqual (EqualFold) instead of !=; case-variant references count as duplicates and the in-place compaction overwrites the later one", "an allowed list holding two references spelled the same except for case plus an entry that sorts after them; the expression uses the lower-case spelling"),
 "C02-R2": ("C02", "getLicenseRange builds a process-wide sync.Map index on first use; the 'built' flag is set by CompareAndSwap BEFORE the index is filled and other callers do not wait", "two goroutines make the process's first range-needing Satisfies calls at the same moment: the loser looks up in a half-built index and answers false for an in-family pair"),
 "C03-R2": ("C03", "activeLicense uses a sorted lower-case index searched with sort.SearchStrings and reads keys[i] without checking i == len(keys)", "an id that sorts after the last active id (ZPL-2.1-only, zzz, ZPL-3.0): index out of range in all three functions"),
 "C04-R2": ("C04", "recursion-depth guard (64) in parseExpression that also counts the parser's self-recursion for the right operand of every OR", "a valid expression with 65+ operands ORed on one level (or 64+ nested parentheses) is rejected by all three entry points"),
 "C05-R2": ("C05", "nesting guard whose depth counter goes up on every '(' and never down on ')'", "a valid expression with 33 or more '(' in total at any nesting depth"),
 "C06-R2": ("C06", "leaves() rewritten as an iterative level-by-level walk that queues sub-groups into groups[:0] while ranging over groups", "nesting depth 3 and >= 8 terms: a parenthesised non-last operand holding two parenthesised operands and followed by another parenthesised operand loses that sibling's terms"),
 "C07-R2": ("C07", "Satisfies uses the slice returned by sortAndDedup, whose new field-by-field comparison ignores the DocumentRef value", "an allowed list with one LicenseRef id under two different DocumentRefs: the later one is dropped, adding an entry turns satisfied into not satisfied"),
 "C08-R2": ("C08", "unsynchronised one-entry package-level cache in the scanner branch that turns 'X+' into the X-or-later token, id stored before token", "two goroutines using the X+ spelling of different deprecated GNU ids concurrently: one gets the other's token / the cache stays poisoned"),
 "C09-R2": ("C09", "the scanner keeps a lower-cased copy of the expression that is patched differently from the real buffer when X-or-later+ is rewritten (one byte out of step afterwards)", "one expression containing an unlisted X-or-later+ followed later by a listed id in upper or mixed case"),
 "C10-R2": ("C10", "parse-time collapse of 'X op X' into X, equality decided with EqualFold", "two references differing only in letter case as the two direct operands of one AND/OR"),
 "C11-R2": ("C11", "licensesAreCompatible returns false early when the 'base license' (id minus suffix minus everything after the last '-') differs", "the one family whose version part contains a hyphen: Brian-Gladman-2-Clause / -3-Clause"),
 "C12-R2": ("C12", "generator emits the tables as package-level variables and the getters return append(table[:0], table...), i.e. the shared backing array", "get a table, write into the returned slice, call the getter or validate again"),
 "C13-R2": ("C13", "scan() takes its stream and token buffer from a sync.Pool and puts them back on return while parse() still reads the tokens; only buffers of >= 17 tokens are pooled", "concurrent calls after an expression of 17+ tokens, one goroutine descheduled between scan's return and the end of parse"),
 "C14-R2": ("C14", "operands() flattening passes the accumulator down AND appends the returned slice for a parenthesised same-operator left operand", "20+ parenthesised groups joined by the operator used inside them: the operand list doubles per group"),
 "C15-R2": ("C15", "last-resort branch accepts X-or-later for deprecated-only ids and rewrites the buffer without adding to the removed-byte count", "a prefix spelling -or-later on a deprecated id without a listed -or-later form (eCos-2.0-or-later), followed by an unknown or missing id"),
 "C01-R3": ("C01", "Satisfies passes the de-duplicated allowed list through removeCovered(), which prunes entries 'covered' by a '+' entry of the same family; it records the earliest '+' version without skipping '+' entries that carry a WITH exception", "an allowed list holding a '+'/-or-later entry WITH an exception plus an exception-less entry of the same family at the same or a later version; the expression needs the second entry"),
 "C02-R3": ("C02", "normalizeLicense consumes a trailing '+' up front with exp.read(\"+\") instead of peeking; when no -or-later form is listed the '+' is swallowed", "a deprecated id without an -or-later form that sits in a version family, followed by '+': only bzip2-1.0.5+"),
 "C03-R3": ("C03", "identifierInRange calls a new compareGE that skips the sameLicenseGroup check (which doubled as the nil guard) when both ids are identical", "the same id on both sides, no version range for it (MIT, ISC, ...), exactly one side with '+': nil dereference in Satisfies"),
 "C04-R3": ("C04", "ids are found through lazily built indexes bucketed by the case-folded first letter; ids that start with a digit are silently dropped when the buckets are filled", "0BSD, 3D-Slicer-1.0 or 389-exception anywhere: rejected as unknown by all three entry points"),
 "C05-R3": ("C05", "the -only branch strips the suffix with strings.TrimRight(license, \"-only\") (a cutset trim) instead of slicing off 5 bytes", "the synthesised -only form of an id whose last character is o, n, l, y or '-' (Ruby-only, curl-only: 36 of 638 ids)"),
 "C06-R3": ("C06", "ExtractLicenses fast path: an input that exactly matches an active id is returned verbatim without parsing", "the expression is exactly one bare, exactly-cased listed -or-later id: GPL-2.0-or-later instead of the canonical GPL-2.0-or-later+ that every other spelling gives"),
 "C07-R3": ("C07", "Satisfies builds a lookup index when the allowed list has 8 or more entries: exact strings plus a fallback that only considers entries belonging to a version range", "a list of at least 8 entries and '+' on an unversioned id (MIT+ vs listed MIT): satisfied flips to not satisfied once the list reaches 8 entries"),
 "C08-R3": ("C08", "readLicense rejects any scanned id longer than the longest listed id, before the -only/-or-later suffix is stripped", "X-or-later for an active id of 28+ characters or X-only for 32+ characters (26 / 8 ids)"),
 "C09-R3": ("C09", "fast path in stringsToNodes for plain ids sets hasPlus from HasSuffix(caller's text, \"-or-later\")", "an allowed entry that is a listed -or-later id with the suffix in upper or mixed case, and an expression license that matches only through the version range"),
 "C10-R3": ("C10", "isSatisfiedBy carries a nesting counter (every recursive step, not per parenthesis level) and returns false beyond 32", "a chain or left nesting of 34+ operands: a flat 34-operand AND with every term allowed is false, the same operands grouped in balanced halves are true"),
 "C11-R3": ("C11", "sortAndDedup compares neighbouring entries field by field through a helper that ignores hasPlus: X+ is a duplicate of X and is overwritten", "an allowed list containing both X and X+ plus at least one entry that sorts after them: X+ no longer reaches later versions"),
 "C12-R3": ("C12", "parseLicense handles 'optional +, then optional WITH' as one switch on the next operator: after a '+' token a WITH clause is never parsed", "<license>+ WITH <exception> where '+' reaches the parser as its own token (Apache-2.0+ WITH e): all 72 exception ids rejected in that position"),
 "C13-R3": ("C13", "ValidateLicenses validates lists of more than 64 entries in parallel and appends each part's invalid entries under a mutex in goroutine completion order", "a list of more than 64 entries, more than one CPU, invalid entries in at least two parts: the order of the returned invalid licenses differs between identical calls"),
 "C14-R3": ("C14", "before each rewrite of an unlisted X-or-later the scanner first scans the whole rest of the expression (look-ahead), again at every later rewrite", "an expression with many unlisted -or-later ids: time and allocation double per rewritten id (16 terms, 267 bytes: 1.5 GB)"),
 "C15-R3": ("C15", "stringsToNodes de-duplicates the entries as strings after trimming blanks and parses the trimmed text", "an unknown or missing id in an allowed entry that starts with spaces: the offset is relative to the trimmed text"),
 "C15-B": ("C15", "one expressionStream is reused for the whole allowed list; re-pointing it does not reset the removed-byte count", "Satisfies with an allowed list in which an unlisted -or-later entry comes before the bad entry: the reported offset lies outside the bad entry"),
}
def matrix(path):
    out = {}
    if not os.path.exists(path): return out
    ids = None
    for line in open(path):
        cells = [c.strip() for c in line.strip().strip('|').split('|')]
        if cells and cells[0] == 'change': ids = cells[1:]; continue
        if not ids or cells[0].startswith('---'): continue
        out[cells[0]] = [i for i, c in zip(ids, cells[1:]) if 'X' in c]
    return out
base = matrix(os.path.join(ROOT, 'seeded', 'RESULTS-baseline.md'))
R2BASE = {"C01-R2": ["C01", "C07"], "C02-R2": [], "C03-R2": ["C03"], "C04-R2": [], "C05-R2": [], "C06-R2": [], "C07-R2": [], "C08-R2": ["C13"], "C09-R2": [],
          "C10-R2": ["C06"], "C11-R2": ["C11"], "C12-R2": ["C13"], "C13-R2": [], "C14-R2": ["C14"], "C15-R2": []}
base.update(R2BASE)
R3BASE = {"C01-R3": ["C01"], "C02-R3": ["C02"], "C03-R3": ["C03"], "C04-R3": ["C12"], "C05-R3": ["C08"], "C06-R3": ["C09"], "C07-R3": [], "C08-R3": ["C08"],
          "C09-R3": ["C09", "C07"], "C10-R3": [], "C11-R3": [], "C12-R3": ["C05"], "C13-R3": [], "C14-R3": ["C14"], "C15-R3": []}
base.update(R3BASE)
final = matrix(os.path.join(ROOT, 'seeded', 'RESULTS.md'))
for name, (prop, what, needs) in DESC.items():
    d = os.path.join(ROOT, 'seeded', name)
    demo = 'demo/main.go' if os.path.exists(os.path.join(d, 'demo', 'main.go')) else 'demo_test.go'
    meta = {
      "id": name, "breaks_property": prop, "change": what, "needs_to_manifest": needs,
      "origin": ("written by an independent sub-agent that was given only the text of the property, its own scratch worktree of /repo and one sentence naming what earlier rounds had already tried (so that it would do something different); nothing from /verif" if not name[-1] in "AB" else "written by an independent sub-agent that was given only the text of the property and its own scratch worktree of /repo"),
      "files": {"patch": "patch.diff", "demonstration": demo, "author_notes": "README.txt"},
      "confirmed_by_me": "in the scratch worktree: git apply patch.diff; go build ./...; go vet ./spdxexp/...; go test -count=1 ./spdxexp/... ./cmd/... all pass; the demonstration fails with the patch and passes on the clean checkout (verify.sh, both directions)",
      "round": 3 if name.endswith("-R3") else 2 if name.endswith("-R2") else 1,
      "detected_by_quick_checks_before_strengthening": base.get(name),
      "note_on_baseline": ("round 3: targeted runs only, see RESULTS-R3-baseline.md" if name.endswith("-R3") else "round 2: targeted runs only (own property's check and related ones), see RESULTS-R2-baseline.md" if name.endswith("-R2") else "all 15 quick checks, see RESULTS-baseline.md"),
      "detected_by_quick_checks": final.get(name),
      "how_run": "tools/matrix.sh (patch applied to a scratch worktree of /repo, every quick check run against it with VERIF_REPO; /repo untouched)",
    }
    json.dump(meta, open(os.path.join(d, 'meta.json'), 'w'), indent=1)
print("meta.json written for", len(DESC), "changes")
