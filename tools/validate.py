#!/opt/veriftools/pyvenv/bin/python
import json, jsonschema, glob, sys
jsonschema.validate(json.load(open('/verif/MANIFEST.json')), json.load(open('/root/.vp/MANIFEST.schema.json')))
es = json.load(open('/root/.vp/EVIDENCE.schema.json'))
for f in sorted(glob.glob('/verif/evidence/*.json')):
    e = json.load(open(f)); jsonschema.validate(e, es)
    c = e['coverage']
    print(f.split('/')[-1], e['tier'], 'states', c['states'], 'nontrivial', c['distinct_nontrivial'], 'exh', c['exhaustive'], 'viol', e['violations'], 'wall', round(e['wall_s'],1))
print('manifest+evidence valid')
