#!/usr/bin/env python3
"""Regenerates /verif/MANIFEST.json from the table below (kept next to the checks it describes)."""
import json, os, sys
ROOT = os.path.dirname(os.path.dirname(os.path.abspath(__file__)))
props = {}
for line in open(os.path.join(ROOT, "properties.jsonl")):
    line = line.strip()
    if line:
        p = json.loads(line); props[p["id"]] = p

ENV = "GOFLAGS=-mod=mod GOPROXY=off GOSUMDB=off GOTOOLCHAIN=local"
# id -> (technique, level text, level note, design section)
CHECKS = json.load(open(os.path.join(ROOT, "tools", "checks.json")))
NA = json.load(open(os.path.join(ROOT, "tools", "not_applicable.json")))

checks = []
for pid in sorted(CHECKS):
    c = CHECKS[pid]
    checks.append({
        "property_id": pid,
        "quick_cmd": f"./run_check.sh {pid} quick",
        "thorough_cmd": f"./run_check.sh {pid} thorough",
        "evidence_file": f"/verif/evidence/{pid}.json",
        "replay_cmd_template": "./run_check.sh replay {path}",
        "engine": c.get("engine", "spdxmc"),
        "level_claimed": {"category": "model_checking", "text": c["text"], "design_ref": c["design_ref"]},
        "level_note": c["note"],
        "technique": c["technique"],
    })
na = [{"property_id": k, "reason": v} for k, v in sorted(NA.items()) if k not in CHECKS]
claimed = set(CHECKS) | {x["property_id"] for x in na}
missing = sorted(set(props) - claimed)
if missing:
    sys.exit(f"properties neither claimed nor listed not_applicable: {missing}")
m = {
    "version": 1,
    "setup_cmd": "./setup.sh",
    "hooks": {
        "guard": "verif",
        "enable": "none needed: every check observes the exported API; the C13 schedule/history explorers instrument a copy of /repo's working tree through a go build -overlay generated at check time (tag 'verif' reserved, unused)",
        "baseline_off_cmd": f"cd /repo && {ENV} go test -vet=off -count=1 ./...",
        "source_commits": [],
        "add_only": True,
    },
    "engines": [
        {"name": "spdxmc", "path": "/verif/mc/cmd/spdxmc", "serves_properties": sorted(CHECKS),
         "kind_free_text": "hand-written bounded-exhaustive explorer (supervisor + worker processes): E1 input-space enumeration against reference models, E2 explicit-state history search, E3 controlled-scheduler interleaving search"},
    ],
    "checks": checks,
    "not_applicable": na,
    "notes": "All checks rebuild the explorer against /repo's working tree (go.mod replace => /repo). Violations: stdout 'VIOLATION property=<id> replay=<path>', exit 1. Known findings: /verif/known_findings.txt. See DESIGN.md.",
}
json.dump(m, open(os.path.join(ROOT, "MANIFEST.json"), "w"), indent=1)
print("MANIFEST.json:", len(checks), "checks,", len(na), "not_applicable")
