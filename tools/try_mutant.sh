#!/bin/sh
# try_mutant.sh <patch.diff> <ID>... : apply a change to /repo, run the quick checks named, undo it.
# Prints one line per check: <ID> exit=<code> (1 = detected).
P="$1"; shift
cd /repo || exit 2
if [ -n "$(git status --porcelain)" ]; then echo "/repo is not clean" >&2; exit 2; fi
git apply "$P" || { echo "patch does not apply" >&2; exit 2; }
trap 'cd /repo && git checkout -q -- . && git clean -fdq' EXIT INT TERM
TIER="${TIER:-quick}"
for id in "$@"; do
  out=$(cd /verif && ./run_check.sh "$id" "$TIER" 2>&1); code=$?
  echo "$id exit=$code $(echo "$out" | grep -c '^VIOLATION') violation lines"
  echo "$out" | grep '^  \[' | head -${SHOW:-2}
  [ $code -eq 2 ] && echo "$out" | tail -15
done
