#!/bin/sh
# try_mutant.sh <patch.diff> <ID>... : apply a change to a private scratch worktree of /repo, run the
# named checks against it (VERIF_REPO), remove the worktree. /repo itself is never touched.
P="$1"; shift
WT=$(mktemp -d /tmp/try-wt-XXXXXX); rmdir "$WT"
git -C /repo worktree add -q --detach "$WT" HEAD || exit 2
trap 'git -C /repo worktree remove --force "$WT"' EXIT INT TERM
(cd "$WT" && git apply "$P") || { echo "patch does not apply" >&2; exit 2; }
TIER="${TIER:-quick}"
for id in "$@"; do
  out=$(cd /verif && VERIF_OUT_DIR=/tmp/try-out VERIF_REPO="$WT" ./run_check.sh "$id" "$TIER" 2>&1); code=$?
  echo "$id exit=$code $(echo "$out" | grep -c '^VIOLATION') violation lines"
  echo "$out" | grep '^  \[' | head -${SHOW:-2} | cut -c1-${WIDTH:-300}
  [ $code -eq 2 ] && echo "$out" | tail -15
done
