#!/bin/sh
# setup.sh — run once after a fresh restore, offline: build the explorer from files on disk only.
set -eu
export GOFLAGS=-mod=mod GOPROXY=off GOSUMDB=off GOTOOLCHAIN=local
ROOT=$(cd "$(dirname "$0")" && pwd)
mkdir -p "$ROOT/bin" "$ROOT/evidence" "$ROOT/replays"
cp /repo/go.sum "$ROOT/mc/go.sum"
cd "$ROOT/mc"
go build -o "$ROOT/bin/spdxmc" ./cmd/spdxmc
echo "setup: spdxmc built"
