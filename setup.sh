#!/bin/sh
# setup.sh — run once after a fresh restore, offline: build the explorer from files on disk only
# and warm the Go build cache (including the -race runtime used by the C13 free-running pass).
set -eu
export GOFLAGS=-mod=mod GOPROXY=off GOSUMDB=off GOTOOLCHAIN=local
ROOT=$(cd "$(dirname "$0")" && pwd)
mkdir -p "$ROOT/bin" "$ROOT/evidence" "$ROOT/replays"
cp /repo/go.sum "$ROOT/mc/go.sum"
cd "$ROOT/mc"
go build -o "$ROOT/bin/spdxmc" ./cmd/spdxmc
go build -o "$ROOT/bin/instr" ./cmd/instr
T=$(mktemp -d)
go build -race -o "$T/c13race" ./cmd/c13race
"$ROOT/bin/instr" /repo "$ROOT/mc/_shim" "$T/ov" && go build -tags c13h -overlay "$T/ov/overlay.json" -o "$T/c13h" ./cmd/c13h || echo "setup: instrumented build not warmed (will be built at check time)"
rm -rf "$T"
echo "setup: spdxmc built, caches warm"
